#!/bin/bash
# tools/seed_recheck.sh <seed-id> : re-run the quick check against /repo HEAD + seeded/<seed-id>/patch.diff (fresh scratch
# worktree, removed afterwards) after a check was strengthened; records the new exit code in meta.json and keeps the first one.
SID=$1; OUT=/verif/seeded/$SID; PID=${SID%%-*}
S=$(mktemp -d /tmp/seedre-XXXXXX); git -C /repo worktree add -q --detach $S/repo HEAD || exit 2
( cd $S/repo && git apply $OUT/patch.diff ) || { echo PATCH-FAILED; git -C /repo worktree remove --force $S/repo; rm -rf $S; exit 3; }
VO=$(mktemp -d /tmp/seedout-XXXXXX)
( cd /verif && DARSIA_REPO=$S/repo VERIF_OUT=$VO ./check $PID --tier quick > $OUT/check_output.txt 2>&1 ); RC=$?
git -C /repo worktree remove --force $S/repo; rm -rf $VO $S
python3 - <<PY
import json
p="$OUT/meta.json"; m=json.load(open(p))
m.setdefault("first_check_quick_exit", m.get("check_quick_exit"))
m["check_quick_exit"]=$RC; m["detected_by_quick"]=($RC==1)
m["ran"]=[r for r in m.get("ran",[]) if "re-run after strengthening" not in r]+["./check $PID --tier quick re-run after strengthening the check: exit $RC"]
json.dump(m,open(p,"w"),indent=1)
PY
echo "$SID recheck exit=$RC"
