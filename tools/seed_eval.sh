#!/bin/bash
# tools/seed_eval.sh <worktree> <Cxx> <seed-id>
# Confirms a seeded change (patch.diff, demo.py, meta.json in <worktree>): demo passes on the unchanged tree and
# fails on the changed one, the unit tests pass with the change; then runs the quick check against /repo with the
# patch applied (undone straight afterwards) and files everything under /verif/seeded/<seed-id>/.
WT=$1; PID=$2; SID=$3
OUT=/verif/seeded/$SID; mkdir -p $OUT
LOG=$OUT/eval.log; : > $LOG
cd $WT || exit 2
if [ -s $WT/patch.diff ]; then cp $WT/patch.diff $OUT/patch.diff; else git -C $WT diff -- src > $OUT/patch.diff; fi
cp $WT/demo.py $OUT/demo.py; cp $WT/meta.json $OUT/meta_agent.json 2>/dev/null
# demo against the CURRENT /repo tree (unchanged) and against /repo + patch in a scratch copy
S=$(mktemp -d /tmp/seedeval-XXXXXX); git -C /repo worktree add -q --detach $S/repo HEAD >> $LOG 2>&1
( cd /tmp && PYTHONPATH=/repo/src timeout 900 /venv/bin/python -W ignore $OUT/demo.py >> $LOG 2>&1 ); D0=$?
( cd $S/repo && git apply $OUT/patch.diff >> $LOG 2>&1 ) || { echo "PATCH-FAILED" | tee -a $LOG; git -C /repo worktree remove --force $S/repo; rm -rf $S; exit 3; }
( cd /tmp && PYTHONPATH=$S/repo/src timeout 900 /venv/bin/python -W ignore $OUT/demo.py >> $LOG 2>&1 ); D1=$?
( cd $S/repo && PYTHONPATH=$S/repo/src timeout 1800 /venv/bin/python -m pytest -q -p no:cacheprovider tests/unit --timeout=900 2>&1 | tail -3 >> $LOG ); 
TESTS=$(grep -E "passed|failed" $LOG | tail -1)
# the check against the patched scratch copy (DARSIA_REPO), so that /repo itself stays untouched while other work runs;
# `git -C /repo apply` + ./check + `git -C /repo checkout -- .` gives the same result
VO=$(mktemp -d /tmp/seedout-XXXXXX)
( cd /verif && DARSIA_REPO=$S/repo VERIF_OUT=$VO ./check $PID --tier quick > $OUT/check_output.txt 2>&1 ); RC=$?
git -C /repo worktree remove --force $S/repo >> $LOG 2>&1; rm -rf $VO $S
echo "demo_unchanged_exit=$D0 demo_changed_exit=$D1 tests='$TESTS' check_exit=$RC" | tee -a $LOG
python3 - <<PY
import json,os
m={}
try: m=json.load(open("$OUT/meta_agent.json"))
except Exception: pass
json.dump({"seed_id":"$SID","property":"$PID","summary":m.get("summary"),"needs":m.get("needs"),
 "ran":["demo.py against /repo (unchanged): exit $D0","demo.py against /repo+patch: exit $D1","tests/unit with the patch: $TESTS","./check $PID --tier quick with DARSIA_REPO=<copy of /repo/src with the patch applied>: exit $RC"],
 "demo_unchanged_exit":$D0,"demo_changed_exit":$D1,"unit_tests":"$TESTS","check_quick_exit":$RC,"detected_by_quick":$RC==1},open("$OUT/meta.json","w"),indent=1)
PY
rm -f $OUT/meta_agent.json
