#!/usr/bin/env python3
"""Regenerates MANIFEST.json from tools/manifest_table.json (one entry per claimed property)."""
import json, os
V = os.path.dirname(os.path.dirname(os.path.abspath(__file__)))
tab = json.load(open(os.path.join(V, "tools", "manifest_table.json")))
props = [json.loads(l)["id"] for l in open(os.path.join(V, "properties.jsonl"))]
checks, na = [], []
for pid in props:
    e = tab["claimed"].get(pid)
    if e and os.path.exists(os.path.join(V, "checks", pid.lower() + ".py")):
        checks.append({
            "property_id": pid,
            "quick_cmd": f"./check {pid} --tier quick",
            "thorough_cmd": f"./check {pid} --tier thorough",
            "evidence_file": f"/verif/evidence/{pid}.json",
            "replay_cmd_template": f"./check {pid} --replay {{path}}",
            "engine": "tlc",
            "level_claimed": {"category": e["level"], "text": e["text"], "design_ref": e.get("design_ref", f"DESIGN.md section 4, {pid}")},
            "level_note": e["note"],
            "technique": e["technique"],
        })
    else:
        na.append({"property_id": pid, "reason": tab["not_applicable"].get(pid, "check not built yet in this round; planned per DESIGN.md section 4")})
m = {
    "version": 1,
    "setup_cmd": "./setup",
    "hooks": tab["hooks"],
    "engines": [{"name": "tlc", "path": "/verif/check", "serves_properties": [c["property_id"] for c in checks],
                 "kind_free_text": "explicit TLA+ specifications (spec/*.tla) checked with TLC; conformance by TLC-enumerated scenarios replayed into darsia and recorded tables/traces validated by Trace_*.tla"}],
    "checks": checks,
    "notes": tab.get("notes", ""),
    "not_applicable": na,
}
json.dump(m, open(os.path.join(V, "MANIFEST.json"), "w"), indent=1)
print("claimed", len(checks), "not_applicable", len(na))
