#!/usr/bin/env python3
"""Insert / refresh section 0 of DESIGN.md from tools/design_status.md and seeded/*/meta.json."""
import glob, json, re
V = "/verif"
rows = ["| Seed | Property | What it needs to manifest | Quick check |", "|---|---|---|---|"]
for d in sorted(glob.glob(V + "/seeded/*/meta.json")):
    m = json.load(open(d))
    needs = (m.get("needs") or "").replace("\n", " ").replace("|", "/")
    if len(needs) > 230:
        needs = needs[:227] + "..."
    st = m.get("status_note") or ("caught (exit 1)" if m["check_quick_exit"] == 1 else "MISSED (exit %s)" % m["check_quick_exit"])
    if m.get("first_check_quick_exit") not in (None, m["check_quick_exit"]):
        st += " after strengthening (first version: exit %s)" % m["first_check_quick_exit"]
    rows.append(f"| {m['seed_id']} | {m['property']} | {needs} | {st} |")
status = open(V + "/tools/design_status.md").read().replace("SEED_TABLE", "\n".join(rows))
d = open(V + "/DESIGN.md").read()
d = re.sub(r"\n## 0\. Status after the build round.*?(?=\n## 1\. What the technique can)", "\n", d, flags=re.S)
d = d.replace("\n## 1. What the technique can", "\n" + status + "\n\n## 1. What the technique can", 1)
d = d.replace("Status: design only (round 0). No framework code exists yet; everything below is\nwhat will be built.", "Status: built (round 1). Section 0 records what exists, what was found and how the\nbuilt checks deviate from the plan below; sections 1-9 are the design they follow.")
d = d.replace("Contents\n\n1. What the technique", "Contents\n\n0. Status after the build round: what exists, findings, seeded changes, false alarms\n1. What the technique")
open(V + "/DESIGN.md", "w").write(d)
print("DESIGN.md updated:", len(d.splitlines()), "lines")
