#!/bin/sh
# tools/seedsweep.sh Cxx [N=12] [first=1] : the quick check of Cxx for N seeds (4 at a time); prints every run that does not exit 0.
# A check that alarms for some seed on the unchanged tree is broken - run this after every change to a driver.
P=$1; N=${2:-12}; F=${3:-1}
D=$(mktemp -d /tmp/sweep-$P-XXXXXX)
seq $F $((F + N - 1)) | xargs -P 4 -I{} sh -c "VERIF_SEED={} VERIF_OUT=$D/{} /verif/check $P > $D/{}.out 2>&1; rc=\$?; [ \$rc -ne 0 ] && echo \"$P seed={} rc=\$rc \$(grep -m2 signature $D/{}.out | cut -c1-150)\"; true"
echo "$P: swept seeds $F..$((F + N - 1))"
rm -rf $D
