#!/bin/sh
# tools/sedmut.sh Cxx <path under src/> '<sed expression>' : ad-hoc mutant - scratch copy of /repo/src, one sed edit, quick check against it
PID=$1; F=$2; EXPR=$3
S=$(mktemp -d /tmp/sedmut-XXXXXX); mkdir -p $S/repo $S/out; cp -r /repo/src $S/repo/src
sed -i "$EXPR" $S/repo/src/$F
if diff -q /repo/src/$F $S/repo/src/$F >/dev/null; then echo "sed changed nothing"; rm -rf $S; exit 2; fi
DARSIA_REPO=$S/repo VERIF_OUT=$S/out /verif/check $PID --tier quick 2>&1 | grep -E "signature|^OK|MACHINERY" | cut -c1-160 | head -6
rm -rf $S
