"""Whole-library sessions validated against Session.tla (extension of C02: time bookkeeping, assembly, metadata well-formedness)."""
import datetime
import warnings

import numpy as np

BASE = datetime.datetime(2021, 1, 2, 3, 4, 5)


def project(img):
    n = img.space_dim
    times = img.time if isinstance(img.time, list) else [img.time]
    dates = img.date if isinstance(img.date, list) else [img.date]
    ref = img.reference_date
    vs = img.voxel_size
    return {
        "dim": int(n), "series": int(bool(img.series)), "tnum": int(img.time_num), "scalar": int(bool(img.scalar)),
        "rangedim": int(img.range_dim), "ndim": int(img.img.ndim), "shape": [int(s) for s in img.img.shape],
        "dimensions": [int(round(1e6 * float(d))) for d in img.dimensions], "origin": [int(round(1e6 * float(o))) for o in np.asarray(img.origin).ravel()],
        "indexing": len(img.indexing), "times": [-1 if t is None else int(round(float(t))) for t in times],
        "dates": [-1 if d is None else int(round((d - BASE).total_seconds())) for d in dates],
        "timelist": int(isinstance(img.time, list)), "datelist": int(isinstance(img.date, list)),
        "ref": -1 if ref is None else int(round((ref - BASE).total_seconds())),
        "vsizeok": [int(abs(vs[a] * img.img.shape[a] - img.dimensions[a]) <= 1e-9 * abs(img.dimensions[a])) for a in range(n)],
    }


def abstract(p):
    return {k: p[k] for k in ("dim", "series", "tnum", "scalar", "times", "dates", "ref")}


def start(darsia, rng, dim, T):
    shape = tuple(rng.randint(2, 4) for _ in range(dim))
    full = shape + ((T,) if T else ())
    arr = np.arange(int(np.prod(full)), dtype=float).reshape(full)
    kw = dict(space_dim=dim, dimensions=[0.5 * (a + 1) * shape[a] for a in range(dim)], scalar=True, reference_date=BASE)
    if T:
        kw.update(series=True, date=[BASE + datetime.timedelta(seconds=100 + 10 * i) for i in range(1, T + 1)], time=[10.0 * i for i in range(1, T + 1)])
    else:
        kw.update(date=BASE + datetime.timedelta(seconds=110), time=10.0)
    with warnings.catch_warnings():
        warnings.simplefilter("ignore")
        return darsia.Image(arr, **kw)


def apply(darsia, rng, img, op, arg):
    n = img.space_dim
    if op == "time_slice":
        return img.time_slice(arg["i"])
    if op == "time_interval":
        return img.time_interval(slice(arg["lo"], arg["hi"]))
    if op == "subregion":
        return img.subregion(tuple(slice(0, max(1, img.img.shape[a] // 2)) for a in range(n)))
    if op == "copy":
        return img.copy()
    if op == "add":
        return img + img
    if op == "mul":
        return img * 2.0
    if op == "refine":
        return darsia.uniform_refinement(img, 1)
    if op == "weight":
        return darsia.weight(img, 2.0)
    if op == "reduce_axis":
        return darsia.reduce_axis(img, rng.choice([0, 1, 2]), mode="sum")
    if op == "extrude":
        return darsia.extrude_along_axis(img, 1.5, 2)
    if op == "reset_reference":
        c = img.copy()
        c.reset_reference_time()
        return c
    if op == "update_reference_float":
        c = img.copy()
        c.update_reference_time(float(arg["shift"]))
        return c
    raise KeyError(op)


def run_program(darsia, rng, tid, prog):
    """prog[0] = start record; returns one event per later step."""
    cur = start(darsia, rng, prog[0]["dim"], prog[0]["T"])
    pool = [cur]
    events = []
    for step in prog[1:]:
        op, arg = step["op"], step["arg"]
        before = abstract(project(cur))
        e = {"tid": tid, "op": op, "arg": arg, "before": before, "raised": 0, "result": {}, "others": []}
        try:
            with warnings.catch_warnings():
                warnings.simplefilter("ignore")
                res = apply(darsia, rng, cur, op, arg)
            e["result"] = project(res)
            e["others"] = [project(x) for x in pool]
            pool.append(res)
            cur = res
        except Exception as ex:  # noqa
            e["raised"] = 1
            e["error"] = repr(ex)[:160]
            events.append(e)
            break
        events.append(e)
    return events
