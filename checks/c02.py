"""C02 — extracted sub-images keep their data and their physical placement."""
import datetime
import json
import random

import numpy as np

from lib.core import import_darsia, MachineryError
from checks.common import to_lattice, from_lattice

LEVEL = "model_checking"
BASE_DATE = datetime.datetime(2022, 3, 4, 10, 0, 0)
BAD = 99999999


def make_root(darsia, rng, shape, T, comps, timekind, h, omode, table, cls_name, dtype="float64"):
    n = len(shape)
    full = tuple(shape) + ((T,) if T else ()) + ((comps,) if comps else ())
    arr = np.arange(int(np.prod(full))).astype(dtype).reshape(full)
    dims = [h[m] * shape[m] for m in range(n)]
    kw = dict(space_dim=n, dimensions=list(dims), scalar=(comps == 0))
    if T:
        kw["series"] = True
        if timekind == "times":
            kw["time"] = [10.0 * i + 3 for i in range(T)]
        elif timekind == "dates":
            kw["date"] = [BASE_DATE + datetime.timedelta(seconds=10 * i) for i in range(T)]
    o = np.zeros(n)
    for m in range(n):
        c, sgn = table[m]
        o[c - 1] = {"default": (dims[m] if sgn < 0 else 0.0), "user": 3.0 * h[m] * (1 + 0.37 * m), "far": 1e6 * h[m]}[omode]
    if omode != "default":
        kw["origin"] = list(o)
    cls = getattr(darsia, cls_name)
    if cls_name == "ScalarImage":
        kw.pop("scalar")
    return cls(arr, **kw), o


def project(img, o, h, table, cs=None):
    """Projection of an image onto the observables of the specification."""
    n = img.space_dim

    def tnum(t):
        if t is None:
            return -1
        return int(round(t))

    def dnum(d):
        if d is None:
            return -1
        return int(round((d - BASE_DATE).total_seconds()))

    time = img.time if isinstance(img.time, list) else [img.time]
    date = img.date if isinstance(img.date, list) else [img.date]
    dims = []
    for a in range(n):
        x = 4 * img.dimensions[a] / h[a]
        dims.append(int(round(x)) if abs(x - round(x)) < 1e-6 * (1 + abs(x)) else BAD)
    vs = [int(round(1e6 * img.voxel_size[a] / h[a])) for a in range(n)]
    # the coordinate system of the child must place voxel v where the parent placed it: use coordinate(0)
    org = to_lattice(np.asarray((cs or img.coordinatesystem).coordinate([0] * n)), o, table, h)[0]
    org2 = to_lattice(np.asarray(img.origin), o, table, h)[0]
    # ... and voxel (1, .., 1) one voxel further along every axis (the coordinate system steps by the image's voxel size)
    one = to_lattice(np.asarray((cs or img.coordinatesystem).coordinate([1] * n)), o, table, h)[0]
    want = list(org)
    for m in range(n):
        c, sgn = table[m]
        want[c - 1] = org[c - 1] + 4 * sgn
    if one != want:
        org = [BAD] * n
    return {"shape": [int(s) for s in img.img.shape], "tags": [int(x) for x in np.asarray(img.img).ravel()],
            "origin": org if org == org2 else [BAD] * n, "dims": dims, "vsize": vs,
            "series": int(bool(img.series)), "scalar": int(bool(img.scalar)),
            "time": [tnum(t) for t in time], "date": [dnum(d) for d in date],
            "timelist": int(isinstance(img.time, list)), "dtype": str(img.img.dtype)}


def apply_op(darsia, rng, img, op, h, o, table):
    n = img.space_dim
    if op["op"] == "tslice":
        return img.time_slice(op["i"])
    if op["op"] == "tint":
        a, b = op["a"], op["b"]
        return img.time_interval(slice(a if (a > 0 or rng.random() < 0.5) else None, b))
    roi = op["roi"]
    ext = img.img.shape[:n]
    if op["form"] == "slices":
        sl = []
        for a in range(n):
            lo, hi = roi[a]
            lo_ = None if (lo == 0 and rng.random() < 0.5) else lo
            hi_ = None if (hi >= ext[a] and rng.random() < 0.5) else hi
            sl.append(slice(lo_, hi_))
        return img.subregion(tuple(sl))
    # two opposite corner points in random order per axis
    p = [roi[a][0] for a in range(n)]
    q = [roi[a][1] for a in range(n)]
    for a in range(n):
        if rng.random() < 0.5:
            p[a], q[a] = q[a], p[a]
    if op["form"] == "voxels":
        pts = [p, q] if rng.random() < 0.7 else [p, q, [min(x, y) for x, y in zip(p, q)]]
        return img.subregion(darsia.make_voxel(pts))
    # physical corner points: voxel corner plus a strictly interior quarter offset (same voxel index after floor)
    cs = img.coordinatesystem
    pts = []
    for v in (p, q):
        off = [rng.choice([1, 2, 3]) / 4 for _ in range(n)]
        x0 = np.asarray(cs.coordinate(v), dtype=float)
        x1 = np.asarray(cs.coordinate([vi + 1 for vi in v]), dtype=float)
        # interpolate inside voxel v along every Cartesian axis
        w = np.zeros(n)
        for m in range(n):
            c, _ = table[m]
            w[c - 1] = off[m]
        pts.append((x0 + w * (x1 - x0)).tolist())
    return img.subregion(darsia.make_coordinate(pts))


def run_program(darsia, rng, tid, prog, shape, T, comps, timekind, h, omode, table, cls_name):
    # pixel type of the payload: the 8-bit tags stay below 256 for the roots in use (asserted), bool is not a tag carrier
    dtype = rng.choice(["float64", "float64", "float32", "int64", "uint16", "uint8"])
    root, o = make_root(darsia, rng, shape, T, comps, timekind, h, omode, table, cls_name, dtype)
    if dtype == "uint8" and root.img.size > 255:
        dtype = "uint16"
        root, o = make_root(darsia, rng, shape, T, comps, timekind, h, omode, table, cls_name, dtype)
    ev = [{"tid": tid, "op": "root", "shape": list(shape), "T": T, "comps": comps, "timekind": timekind, "dtype": dtype, "child": project(root, o, h, table)}]
    rootcopy = root.img.copy()
    cur = root
    chain = []
    kept = [root.coordinatesystem]      # coordinate systems taken when the images were made, used again at the very end
    for op in prog:
        e = dict(op, tid=tid, raised=0)
        try:
            cur = apply_op(darsia, rng, cur, op, h, o, table)
            chain.append(cur)
            kept.append(cur.coordinatesystem)
            e["child"] = project(cur, o, h, table)
            if type(cur).__name__ != cls_name:
                e["child"]["scalar"] = -7  # class not preserved
        except Exception as ex:
            e["raised"] = 1
            e["child"] = {}
            e["error"] = repr(ex)[:200]
            ev.append(e)
            break
        ev.append(e)
    if not np.array_equal(rootcopy, root.img):
        ev[0]["child"]["tags"] = [-1]
    # the caller goes on working with the last extract - assembles a series from it, rebinds its data and placement - and
    # then reads the images it was taken from again: they are what they were (the extract is an image of its own)
    if chain and not ev[-1].get("raised"):
        last = chain[-1]
        try:
            other = last.copy()
            if not last._is_none(last.date):
                shift = datetime.timedelta(days=400)
                other.date = [d + shift for d in other.date] if isinstance(other.date, list) else other.date + shift
            last.append(other, offset=1.0)
        except Exception:   # appending is not the subject here
            pass
        last.img = np.zeros_like(last.img)
        last.origin = [x + 1.0 for x in np.asarray(last.origin, dtype=float)]
        # ... while an unrelated image of other voxel sizes has come into being and been placed in between
        other, _ = make_root(darsia, rng, shape, T, comps, timekind, [x * 2.5 for x in h], "user", table, cls_name, "float64")
        other.coordinatesystem.coordinate([0] * len(shape))
        for k, im in enumerate([root] + chain[:-1]):
            ev.append({"tid": tid, "op": "again", "k": k + 1, "child": project(im, o, h, table, cs=kept[k] if rng.random() < 0.5 else None)})
    return ev


def diffroi_event(darsia, rng, tid, shape, h, omode, table, comps, T):
    """A physical box (arbitrary float corner points: inside voxels, exactly on voxel faces, outside the image) selects the
    same sub-image as the voxel box obtained by converting its corners to voxel indices."""
    root, o = make_root(darsia, rng, shape, T, comps, "times" if T else "none", h, omode, table, "Image")
    cs = root.coordinatesystem
    n = len(shape)
    pts = []
    for _ in range(2):
        v = [rng.uniform(-1.0, shape[a] + 1.0) if rng.random() < 0.6 else float(rng.randint(0, shape[a])) for a in range(n)]
        # physical point at fractional voxel position v (linear along every matrix axis)
        x0 = np.asarray(cs.coordinate([0] * n), dtype=float)
        x = x0.copy()
        for a in range(n):
            ea = [0] * n
            ea[a] = 1
            x = x + v[a] * (np.asarray(cs.coordinate(ea), dtype=float) - x0)
        pts.append(x.tolist())
    e = {"tid": tid, "op": "diffroi", "n": n, "raised_phys": 0, "raised_vox": 0, "same_data": 0, "same_place": 0, "same_meta": 0}
    a = b = None
    try:
        a = root.subregion(darsia.make_coordinate(pts))
    except Exception as ex:  # noqa
        e["raised_phys"] = 1
        e["error"] = repr(ex)[:120]
    try:
        b = root.subregion(darsia.make_voxel(np.asarray(cs.voxel(np.array(pts)))))
    except Exception as ex:  # noqa
        e["raised_vox"] = 1
    if a is not None and b is not None:
        e["same_data"] = int(a.img.shape == b.img.shape and a.img.dtype == b.img.dtype and np.array_equal(a.img, b.img))
        e["same_place"] = int(np.allclose(np.asarray(a.origin), np.asarray(b.origin), rtol=0, atol=1e-12 * max(1.0, float(np.abs(o).max())))
                              and np.allclose(a.dimensions, b.dimensions, rtol=1e-12, atol=0))
        e["same_meta"] = int(a.series == b.series and a.scalar == b.scalar and (a.time == b.time))
    return e


STK = [-1]
APP = [-1]


def stack_event(darsia, rng, tid, n, k, timekind, shape, use_append):
    full = tuple(shape)
    imgs = []
    # spacing of the acquisition times: seconds, half a day, more than a day, fractions of a second
    step = rng.choice([10.0, 40000.0, 93600.0, 7.25])
    # (relative times by turns: all positive; starting at exactly 0; running through 0 from negative times)
    if timekind == "times" and use_append:
        STK[0] += 1
    t0 = [0.0, 3.0, -step, 0.0, -2 * step][STK[0] % 5] if use_append else 3.0
    for i in range(k):
        arr = (np.arange(int(np.prod(full)), dtype=float) + 1000 * i).reshape(full)
        kw = dict(space_dim=n, dimensions=[1.0 * s for s in shape], scalar=True)
        if timekind == "dates":
            kw.update(date=BASE_DATE + datetime.timedelta(seconds=step * i), reference_date=BASE_DATE)
        elif timekind == "times":
            kw.update(time=step * i + t0)
        imgs.append(darsia.Image(arr, **kw))

    def proj(im):      # times and dates in milliseconds
        return {"tags": [int(x) for x in im.img.ravel()], "time": -1 if im.time is None else int(round(1000 * im.time)),
                "date": -1 if im.date is None else int(round(1000 * (im.date - BASE_DATE).total_seconds()))}
    # (the offset between the clocks of the appended images by turns: none (int 0 / float 0.0 - a common clock), seconds, minutes)
    if use_append and timekind == "times":
        APP[0] += 1
    offset = [0, 5, 0.0, 120][APP[0] % 4] if (use_append and timekind == "times") else 0
    e = {"tid": tid, "op": "stack", "k": k, "timekind": timekind, "via": "append" if use_append else "stack", "raised": 0,
         "orig": [proj(im) for im in imgs], "back": [], "offset": 1000 * offset, "step": step}
    try:
        if use_append:
            ser = imgs[0].copy()
            for i in range(1, k):
                if timekind == "times":
                    ser.append(imgs[i], offset=offset)
                else:
                    ser.append(imgs[i])
        else:
            ser = darsia.stack([im.copy() for im in imgs])
        e["back"] = [proj(ser.time_slice(i)) for i in range(k)]
    except Exception as ex:
        e["raised"] = 1
        e["error"] = repr(ex)[:200]
    return e


def box_growth(ck, darsia):
    """Growth beyond the listed properties: bounding boxes of voxel sets (spec/Box.tla), conformance with the as-built rule.
    Reported as an observation / note, never as a violation of C02."""
    ck.sany("Box")
    ck.model_check("Box", "Box_covering.cfg", workers=1)
    rp = ck.tlc("Box", "Box_asbuilt_prop.cfg", workers=1, expect_ok=False, label="asbuilt-property")
    rb = ck.model_check("Box", "Box_asbuilt.cfg", workers=1)
    agree, total, inv_ok, per_ok = 0, 0, 0, 0
    for p in rb.printed("BOX"):
        V, pad, clip, box, per = sorted(tuple(v) for v in p[1]), int(p[2]), bool(p[3]), p[4], int(p[5])
        total += 1
        try:
            got = darsia.bounding_box(darsia.VoxelArray([list(v) for v in V]), padding=pad, max_size=(3, 3) if clip else None)
            g = [[int(sl.start), int(sl.stop)] for sl in got]
            agree += int(g == [list(b) for b in box])
            corners = darsia.bounding_box_inverse(got)
            back = darsia.bounding_box(corners)
            inv_ok += int([[int(sl.start), int(sl.stop)] for sl in back] == g)
            per_ok += int(int(darsia.perimeter(got)) == per)
        except Exception:  # noqa
            pass
    ck.cov["bounding_box"] = {"voxel_sets": total, "implementation_follows_asbuilt_rule": agree, "inverse_round_trip": inv_ok, "perimeter": per_ok,
                              "covers_under_asbuilt_rule": "violated" if "Covers" in rp.violated else "holds"}
    if total and agree == total and inv_ok == total and per_ok == total and "Covers" in rp.violated:
        print(f"OBSERVATION (not a listed property): darsia.bounding_box follows the as-built rule of Box.tla on all {total} voxel sets/paddings: "
              "its slices stop at the largest voxel index (+ padding), so the array region they select does not contain the largest voxel of the set "
              "(Covers fails under that rule; a single voxel gives an empty region); bounding_box_inverse and perimeter agree with the model")
    elif total:
        ck.note(f"Box: bounding_box follows the as-built rule on {agree} of {total} cases, inverse round trip {inv_ok}, perimeter {per_ok}")


def run(ck, replay=None):
    ck.sany("MC_ImageOps", "Trace_ImageOps")
    quick = ck.tier == "quick"
    progs = {}
    for cfg in ("2d", "3d"):
        r = ck.model_check("MC_ImageOps", f"MC_ImageOps_{cfg}.cfg", workers=4)
        progs[cfg] = [p[1] for p in r.printed("PROG")]
    for cfg in ("sim2d", "sim3d"):
        r = ck.tlc("MC_ImageOps", f"MC_ImageOps_{cfg}.cfg", workers=1, label="simulate",
                   extra=["-simulate", f"num={4 if quick else 40}", "-depth", "5", "-seed", str(ck.seed + 11)])
        seen, lst = set(), []
        for p in r.printed("PROG"):
            key = json.dumps(p[1], sort_keys=True)
            if key not in seen:
                seen.add(key)
                lst.append(p[1])
        progs[cfg] = lst
        ck.cov["states"] += r.generated
    r2 = ck.tlc("MC_Axes", "MC_Axes.cfg", workers=1, label="axis-table")
    tables = {len(p[1]): [tuple(t) for t in p[2]] for p in r2.printed("SCN")}
    shapes = {"2d": (3, 2), "3d": (2, 2, 2), "sim2d": (4, 3), "sim3d": (3, 2, 3)}
    Ts = {"2d": 3, "3d": 2, "sim2d": 3, "sim3d": 2}
    darsia = import_darsia()
    rng = random.Random(ck.seed)
    # two images of one shape placed elsewhere and with other voxel sizes (and acquisition times), cut and sliced along every
    # interleaving of spec/TwoObjects.tla: every extract is placed and stamped as ITS source prescribes
    from lib import twoobj
    thists = twoobj.histories(ck)
    tspecs = []
    for nd in (2, 3):
        shp = (4, 5) if nd == 2 else (3, 4, 2)

        def make(o, nd=nd, shp=shp):
            f = 1.0 if o == "a" else 2.5
            arr = np.arange(float(np.prod(shp) * 3)).reshape(shp + (3,)) + (0 if o == "a" else 1000)
            return darsia.Image(arr, space_dim=nd, dimensions=[f * 0.5 * (m + 1) * shp[m] for m in range(nd)], origin=[(1.0 if o == "a" else -4.0) * (m + 1) for m in range(nd)],
                                scalar=True, series=True, time=[(1.0 if o == "a" else 7.0) * t for t in range(3)])

        def use(o, img, nd=nd, shp=shp):
            roi = tuple(slice(1, shp[m]) for m in range(nd))
            sub = img.subregion(roi)
            ts = sub.time_slice(1)
            ti = img.time_interval(slice(1, 3))
            cs = sub.coordinatesystem
            return [np.asarray(sub.img, dtype=float), np.asarray(sub.origin, dtype=float), np.asarray(sub.dimensions, dtype=float), np.asarray(ts.img, dtype=float),
                    np.asarray([ts.time], dtype=float), np.asarray(ti.time, dtype=float), np.asarray(cs.coordinate([1] * nd), dtype=float),
                    np.asarray(img.subregion(darsia.make_coordinate([np.asarray(img.coordinatesystem.coordinate([1] * nd)), np.asarray(img.coordinatesystem.coordinate(list(shp)))])).img, dtype=float)]

        sel = thists if ck.tier != "quick" else [h for h in thists if len(h) <= 4]
        tspecs.append((sel, f"image-{nd}d", make, use, lambda x, y: all(p_.shape == q_.shape and np.allclose(p_, q_, rtol=1e-12, atol=1e-12) for p_, q_ in zip(x, y)), f"twin:{nd}d"))
    ck.cov["twin_object_histories"] = twoobj.run(ck, "C02", tspecs)
    # one dated image (single or series) used again after appends it rejected (spec/FailedCalls.tla): a rejected append
    # (earlier date, other extent / placement / kind) leaves data, dates and times as they were - a later valid append,
    # time_slice and time_interval see what a fresh object shows
    from lib import failedcalls
    import datetime as _dt
    fhists = failedcalls.histories(ck)
    fspecs = []
    t0 = _dt.datetime(2020, 1, 1)
    for nd in (2, 3):
        for series0 in (False, True):
            shp = (4, 5) if nd == 2 else (3, 4, 2)
            kw = dict(space_dim=nd, dimensions=[0.5 * (m + 1) * shp[m] for m in range(nd)], origin=[1.0 * (m + 1) for m in range(nd)], scalar=True)

            def single(day, val, shp_=shp, kw_=kw, **over):
                k2 = dict(kw_, **over)
                return darsia.Image(np.full(shp_ if "shape" not in over else over.pop("shape"), float(val)) + np.arange(float(np.prod(shp_))).reshape(shp_),
                                    date=t0 + _dt.timedelta(days=day), **{k: v for k, v in k2.items() if k != "shape"})

            def fmake(series0=series0, shp=shp, kw=kw, single=single):
                if not series0:
                    return single(10, 100.0)
                arr = np.arange(float(np.prod(shp) * 2)).reshape(shp + (2,))
                return darsia.Image(arr, series=True, date=[t0 + _dt.timedelta(days=8), t0 + _dt.timedelta(days=10)], **kw)

            def fuse(img, single=single):
                c = img.copy()
                c.append(single(20, 500.0))
                out = [np.asarray(c.img, dtype=float), np.asarray([(d - t0).total_seconds() for d in c.date], dtype=float), np.asarray([c.time_num], dtype=float)]
                for k in range(c.time_num):
                    ts = c.time_slice(k)
                    out += [np.asarray(ts.img, dtype=float), np.asarray([(ts.date - t0).total_seconds()], dtype=float)]
                ti = c.time_interval(slice(c.time_num - 2, c.time_num))
                out += [np.asarray(ti.img, dtype=float), np.asarray([(d - t0).total_seconds() for d in ti.date], dtype=float)]
                return out

            shp2 = tuple(n + 1 for n in shp)
            bads = [lambda single=single: single(5, 900.0), lambda single=single: single(10, 901.0),
                    lambda shp2=shp2, kw=kw: darsia.Image(np.full(shp2, 902.0), date=t0 + _dt.timedelta(days=15), **kw),
                    lambda single=single, kw=kw: single(15, 903.0, dimensions=[2.0 * d for d in kw["dimensions"]]),
                    lambda single=single, kw=kw: single(15, 904.0, origin=[7.0 + d for d in kw["origin"]]),
                    lambda: None]
            for bi, bad in enumerate(bads):
                fspecs.append((fhists, f"append-{nd}d-{'series' if series0 else 'single'}-bad{bi}", fmake, fuse, lambda img, bad=bad: img.append(bad()),
                               lambda x, y: len(x) == len(y) and all(p_.shape == q_.shape and np.allclose(p_, q_, rtol=1e-12, atol=1e-12) for p_, q_ in zip(x, y)),
                               f"failed:append:{nd}:{int(series0)}:{bi}"))
    ck.cov["failed_call_histories"] = failedcalls.run(ck, "C02", fspecs)
    cases = []
    if replay:
        for c in json.load(open(replay))["cases"]:
            cases.append(tuple(c["case"]))
    else:
        for cfg, lst in progs.items():
            long_ = [p for p in lst if len(p) >= 2]
            short = [p for p in lst if len(p) < 2]
            if cfg.startswith("sim"):
                sel = rng.sample(long_, min(len(long_), 150 if quick else 4000))
            else:
                sel = short if not quick else rng.sample(short, min(len(short), 120))
            for p in sel:
                comps = rng.choice([0, 0, 2, 3])
                timekind = rng.choice(["times", "dates", "none"])
                h = [rng.choice([1.0, 0.5, 0.1, 0.3 / 7, 1e-4, 1e4 / 3]) for _ in shapes[cfg]]
                cls_name = rng.choice(["Image", "ScalarImage"]) if not comps else ("OpticalImage" if comps == 3 and len(shapes[cfg]) == 2 and rng.random() < 0.7 else "Image")
                cases.append((cfg, p, comps, timekind, h, rng.choice(["default", "user", "far"]), cls_name))
    events, info = [], {}
    for i, c in enumerate(cases):
        tid = f"x{i}"
        cfg, p, comps, timekind, h, omode, cls_name = c
        info[tid] = c
        events += run_program(darsia, rng, tid, p, shapes[cfg], Ts[cfg], comps, timekind, h, omode, tables[len(shapes[cfg])], cls_name)
    # non-series roots: spatial extraction only
    for i in range(6 if quick else 60):
        cfg = rng.choice(["sim2d", "sim3d"])
        p = [op for op in rng.choice(progs[cfg]) if op["op"] == "sub"][:3]
        if not p:
            continue
        tid = f"ns{i}"
        c = (cfg, p, rng.choice([0, 3]), "none", [0.5] * len(shapes[cfg]), "user", "Image")
        info[tid] = c
        try:
            events += run_program(darsia, rng, tid, p, shapes[cfg], 0, c[2], "none", c[4], c[5], tables[len(shapes[cfg])], "Image")
        except Exception:
            raise
    # physical boxes versus the voxel boxes of their converted corners
    for i in range(40 if quick else 600):
        cfg = rng.choice(["2d", "3d", "sim2d", "sim3d"])
        hh = [rng.choice([1.0, 0.5, 0.1, 0.3 / 7, 1e4 / 3]) for _ in shapes[cfg]]
        events.append(diffroi_event(darsia, rng, f"diffroi:{i}", shapes[cfg], hh, rng.choice(["default", "user", "far"]), tables[len(shapes[cfg])],
                                    rng.choice([0, 0, 2]), rng.choice([0, Ts[cfg]])))
    # stacking / appending
    nstack = 0
    for k in range(2, 6):
        for timekind in ("dates", "times", "none"):
            for use_append in (False, True):
                tid = f"stack:{k}:{timekind}:{'append' if use_append else 'stack'}"
                n = rng.choice([2, 3])
                events.append(stack_event(darsia, rng, tid, n, k, timekind, tuple(rng.randint(1, 3) for _ in range(n)), use_append))
                nstack += 1
    box_growth(ck, darsia)
    # ---- extension: whole-library sessions (time bookkeeping, assembly, metadata well-formedness) against Session.tla
    from checks import session as sess
    ck.sany("MC_Session", "Trace_Session")
    rs = ck.model_check("MC_Session", "MC_Session.cfg", workers=4)
    sprogs = [p[1] for p in rs.printed("PROG")]
    ssel = rng.sample(sprogs, min(len(sprogs), 150 if quick else 3000))
    sevents = []
    for i, pr in enumerate(ssel):
        sevents += sess.run_program(darsia, rng, f"sess{i}", pr)
    sbad = ck.validate("Trace_Session", "Trace.cfg", sevents, chunk=800)
    for b in sbad:
        e = b["event"]
        ck.violation(f"C02:Session:{b['clause']}:{e['op']}", f"session step {e['op']} violates {b['clause']}", {k: v for k, v in e.items() if k in ("op", "arg", "before", "result", "error")})
    ck.cov["session_programs"] = len(ssel)
    ck.cov["session_steps"] = len(sevents)
    bad = ck.validate("Trace_ImageOps", "Trace.cfg", events, weight=lambda e: 5 + len(e.get("child", {}).get("tags", [])), budget=40000)
    firsts = {}
    for b in bad:
        firsts.setdefault(b["tid"], b["line"])
    for b in bad:
        e = b["event"]
        if b["clause"] == "HarnessScenarioNotEnabled":
            if firsts[b["tid"]] == b["line"]:
                raise MachineryError(f"scenario not enabled: {e}")
            continue
        if b["line"] != firsts[b["tid"]]:
            continue  # verdict of a trace = its first rejected step
        if e["op"] == "stack":
            sig = f"C02:{b['clause']}:{e['via']}:{e['timekind']}"
            detail = {"k": e["k"], "timekind": e["timekind"], "via": e["via"], "error": e.get("error")}
        elif e["op"] == "diffroi":
            sig = f"C02:{b['clause']}:diffroi:{e['n']}d"
            detail = {k: v for k, v in e.items() if k != "tid"}
        else:
            form = e.get("form", "")
            sig = f"C02:{b['clause']}:{e['op']}" + (":" + form if form else "")
            detail = {"case": [info[b["tid"]][0], info[b["tid"]][1], *info[b["tid"]][2:]], "step": {k: v for k, v in e.items() if k != "child"}}
        ck.violation(sig, f"{e['op']} violates {b['clause']}", detail)
    ck.cov["evaluations"] = len(events)
    ck.cov["distinct_nontrivial"] = len({json.dumps(c[1], sort_keys=True) for c in cases if len(c[1]) >= 2}) + nstack
    ck.cov["rule"] = "programs enumerated by TLC: all single steps over every ROI kind (exhaustive configs) and simulated programs of 2-5 steps; each replayed on arange images with seeded payload/time kinds and float concretisations; non-trivial = program with >= 2 steps, or a stack/append scenario"
    ck.cov["programs_emitted"] = {k: len(v) for k, v in progs.items()}
    ck.cov["samples"] = [{"program": cases[0][1], "rest": list(map(str, cases[0][2:]))}, {"program": cases[-1][1], "rest": list(map(str, cases[-1][2:]))}]
    ck.assumptions += ["root payload is np.arange (provenance tags); physical positions relative to the ROOT origin on the quarter-voxel lattice",
                       "stack scenarios give all originals a common reference date so that relative times are comparable"]
