"""C08 — all linear-solve formulations and back-ends solve the same system."""
import json
import random
import warnings

import numpy as np
import scipy.sparse as sps

from lib.core import import_darsia
from checks.wcommon import exponent, incidence, make_images, random_masses

LEVEL = "model_checking"
LSOPT = {"atol": 1e-13, "rtol": 1e-13, "maxiter": 800}


def full_system(grid, pin, face_w):
    """The mixed system assembled by the harness: [[W*vol, -Dt, 0], [D, 0, -c^T], [0, c, 0]]."""
    D = incidence(grid)
    nf, nc = D.shape[1], D.shape[0]
    vol = float(np.prod(np.asarray(grid.voxel_size, dtype=float)))
    A = sps.diags(face_w * vol)
    c = sps.csr_matrix(([1.0], ([0], [pin])), shape=(1, nc))
    return sps.bmat([[A, -D.T, None], [D, None, -c.T], [None, c, None]], format="csc")


def make_solver(darsia, grid, form, backend):
    opts = {"formulation": form, "linear_solver": backend, "linear_solver_options": dict(LSOPT), "num_iter": 3}
    with warnings.catch_warnings():
        warnings.simplefilter("ignore")
        return darsia.WassersteinDistanceNewton(grid, None, opts)


def random_rhs(rng, nf, nc, flux_block):
    m = np.array([rng.uniform(-1, 1) for _ in range(nc)])
    m -= m.mean()
    f = np.array([rng.uniform(-1, 1) for _ in range(nf)]) if flux_block else np.zeros(nf)
    return np.concatenate([f, m, [0.0]])


def dense_solve(M, rhs):
    return np.linalg.solve(M.toarray(), rhs)


def relerr(a, b, blocks=None):
    """max-norm error relative to the reference; with blocks = (nf, nc): the worst of the flux / pressure / multiplier blocks,
    each relative to its own magnitude (but not below 1e-3 of the whole solution's)."""
    glob = max(1e-300, float(np.abs(b).max()))
    if blocks is None:
        return float(np.abs(a - b).max()) / glob
    nf, nc = blocks
    worst = 0.0
    for sl in (slice(0, nf), slice(nf, nf + nc), slice(nf + nc, None)):
        if a[sl].size:
            worst = max(worst, float(np.abs(a[sl] - b[sl]).max()) / max(1e-3 * glob, float(np.abs(b[sl]).max())))
    return worst


def pattern_event(darsia, shape, tid):
    w = make_solver(darsia, darsia.Grid(tuple(shape)), "pressure", "direct")
    rj = w.reduced_jacobian
    return {"tid": tid, "op": "pattern", "shape": list(shape), "pin": int(w.constrained_cell_flat_index),
            "rind": [int(x) for x in rj.indices], "rptr": [int(x) for x in rj.indptr],
            "rm": [int(x) for x in w.rm_indices],
            "find": [int(x) for x in w.fully_reduced_jacobian_indices], "fptr": [int(x) for x in w.fully_reduced_jacobian_indptr],
            "fidx": [int(x) for x in w.fully_reduced_system_indices], "fidxfull": [int(x) for x in w.fully_reduced_system_indices_full]}


def solve_with(darsia, rng, grid, form, backend, face_w, rhs):
    w = make_solver(darsia, grid, form, backend)
    M = full_system(grid, int(w.constrained_cell_flat_index), face_w)
    with warnings.catch_warnings():
        warnings.simplefilter("ignore")
        sol, _ = w.linear_solve(M.copy(), rhs.copy())
    return np.asarray(sol, dtype=float), M


def run(ck, replay=None):
    ck.sany("MC_LinSolve", "Trace_LinSolve")
    r = ck.model_check("MC_LinSolve", f"MC_LinSolve_{ck.tier}.cfg", workers=4)
    shapes = sorted({tuple(p[1]) for p in r.printed("SCN") if int(np.prod(p[1])) > 1})
    hists = sorted([[m, int(bool(re))] for (m, re) in p[1]] for p in r.printed("HIST"))     # (TLC's workers print in any order)
    darsia = import_darsia()
    rng = random.Random(ck.seed)
    quick = ck.tier == "quick"
    # solver objects on grids that agree in all counts but not in shape, set up and used along every interleaving of
    # spec/TwoObjects.tla: each solves ITS system (all formulations, direct back-end)
    from lib import twoobj
    thists = twoobj.histories(ck)
    tspecs = []
    for form in ("pressure", "flux_reduced", "full"):
        def make(o, form=form):
            g = darsia.Grid((3, 5) if o == "a" else (5, 3), [0.5, 0.25])
            return (g, make_solver(darsia, g, form, "direct"))

        def use(o, obj):
            g, w = obj
            nf_, nc_ = int(g.num_faces), int(g.num_cells)
            fw = 1.0 + 0.1 * np.arange(nf_)
            rhs = np.concatenate([np.cos(np.arange(nf_)), np.sin(np.arange(nc_)) - np.sin(np.arange(nc_)).mean(), [0.0]])
            M = full_system(g, int(w.constrained_cell_flat_index), fw)
            with warnings.catch_warnings():
                warnings.simplefilter("ignore")
                sol, _ = w.linear_solve(M.copy(), rhs.copy())
            return np.asarray(sol, dtype=float)

        sel = thists if not quick else [h for h in thists if len(h) <= 4]
        tspecs.append((sel, "solver-" + form, make, use, lambda x, y: x.shape == y.shape and np.allclose(x, y, rtol=1e-8, atol=1e-10), "twin:" + form))
    ck.cov["twin_object_histories"] = twoobj.run(ck, "C08", tspecs)
    events = []
    # (a) index bookkeeping for every shape
    # ... and for grids that agree in every count (cells, faces, entries of the reduced Jacobian, pinned cell) but not in
    # shape, one after the other in one process: the index tables are a function of the shape
    twins = [(3, 5), (5, 3), (3, 5), (3, 3, 5), (5, 3, 3), (3, 5, 3), (2, 6), (6, 2), (3, 4), (4, 3)]
    for s in shapes + twins:
        events.append(pattern_event(darsia, s, "pattern:" + "x".join(map(str, s)) + (":twin" if s in twins else "")))
    # (b) dispatch table
    grid = darsia.Grid((3, 2), [0.5, 0.25])
    nf, nc = int(grid.num_faces), int(grid.num_cells)
    for form in ["full", "flux_reduced", "pressure", "flux-reduced"]:
        for backend in ["direct", "amg", "cg"]:
            e = {"tid": f"dispatch:{form}:{backend}", "op": "dispatch", "form": form, "backend": backend, "accepted": 0, "solved": 0, "errexp": 3}
            try:
                w = make_solver(darsia, grid, form, backend)
                e["accepted"] = 1
                fw = np.array([10 ** rng.uniform(-1.5, 1.5) for _ in range(nf)])
                rhs = random_rhs(rng, nf, nc, True)
                M = full_system(grid, int(w.constrained_cell_flat_index), fw)
                with warnings.catch_warnings():
                    warnings.simplefilter("ignore")
                    sol, _ = w.linear_solve(M.copy(), rhs.copy())
                e["solved"] = 1
                e["errexp"] = exponent(relerr(np.asarray(sol), dense_solve(M, rhs)))
            except BaseException as ex:  # noqa
                e["error"] = repr(ex)[:160]
            events.append(e)
    # numeric agreement over shapes / weights / right-hand sides
    combos = [("full", "direct"), ("flux_reduced", "direct"), ("flux_reduced", "amg"), ("flux_reduced", "cg"),
              ("pressure", "direct"), ("pressure", "amg"), ("pressure", "cg")]
    sample = shapes if not quick else rng.sample(shapes, min(len(shapes), 10))
    # the smallest grids of the range - a single cell, no interior face - in every formulation / back-end (the system is
    # the pinned pressure and the multiplier only)
    sample = [(1,), (1, 1), (1, 1, 1)] + list(sample)
    for s in sample:
        h = [rng.choice([1.0, 0.5, 0.1, 2.0]) for _ in s]
        grid = darsia.Grid(tuple(s), h)
        nf, nc = int(grid.num_faces), int(grid.num_cells)
        fw = np.array([10 ** rng.uniform(-1.5, 1.5) for _ in range(nf)])
        rhs = random_rhs(rng, nf, nc, rng.random() < 0.7)
        ref = None
        # a source that does not sum to zero makes the multiplier non-zero; the formulations that keep the multiplier have to
        # reproduce it (the pressure-only one documents that it requires a compatible source)
        if rng.random() < 0.35:
            rhs_nz = rhs.copy()
            rhs_nz[nf:nf + nc] += rng.uniform(0.2, 1.0)
            refz = None
            for form, backend in (("full", "direct"), ("flux_reduced", "direct"), ("flux_reduced", "amg")):
                e = {"tid": f"agree:nonzero-mean:{'x'.join(map(str, s))}:{form}:{backend}", "op": "agree", "form": form, "backend": backend, "shape": list(s), "raised": 0, "errexp": 3, "resexp": 3}
                try:
                    sol, M = solve_with(darsia, rng, grid, form, backend, fw, rhs_nz)
                    if refz is None:
                        refz = dense_solve(M, rhs_nz)
                    e["errexp"] = exponent(relerr(sol, refz, (nf, nc)))
                    e["resexp"] = exponent(float(np.abs(M @ sol - rhs_nz).max()) / max(1e-300, float(np.abs(rhs_nz).max())))
                except Exception as ex:  # noqa
                    e["raised"] = 1
                    e["error"] = repr(ex)[:160]
                events.append(e)
        for form, backend in (combos if not quick else rng.sample(combos, 4)):
            e = {"tid": f"agree:{'x'.join(map(str, s))}:{form}:{backend}", "op": "agree", "form": form, "backend": backend, "shape": list(s), "raised": 0, "errexp": 3, "resexp": 3}
            try:
                sol, M = solve_with(darsia, rng, grid, form, backend, fw, rhs)
                if ref is None:
                    ref = dense_solve(M, rhs)
                e["errexp"] = exponent(relerr(sol, ref, (nf, nc)))
                e["resexp"] = exponent(float(np.abs(M @ sol - rhs).max()) / max(1e-300, float(np.abs(rhs).max())))
            except Exception as ex:  # noqa
                e["raised"] = 1
                e["error"] = repr(ex)[:160]
            events.append(e)
        # right-hand sides with special blocks: no mass source at all (a Newton update once mass conservation holds exactly),
        # no flux block, a single non-zero source pair - every formulation solves the SAME system
        if nf > 0:
            specials = {"zero-source": np.concatenate([rhs[:nf], np.zeros(nc), [0.0]]),
                        "zero-flux": np.concatenate([np.zeros(nf), rhs[nf:nf + nc], [0.0]]),
                        "point-pair": np.concatenate([rhs[:nf], np.eye(1, nc, 0).ravel() - np.eye(1, nc, nc - 1).ravel(), [0.0]])}
            for label, rhs_s in specials.items():
                refs = None
                for form, backend in (combos if not quick else [("flux_reduced", "direct"), ("pressure", "direct"), rng.choice(combos)]):
                    e = {"tid": f"agree:{label}:{'x'.join(map(str, s))}:{form}:{backend}", "op": "agree", "form": form, "backend": backend, "shape": list(s), "raised": 0, "errexp": 3, "resexp": 3}
                    try:
                        sol, M = solve_with(darsia, rng, grid, form, backend, fw, rhs_s)
                        if refs is None:
                            refs = dense_solve(M, rhs_s)
                        e["errexp"] = exponent(relerr(sol, refs, (nf, nc)))
                        e["resexp"] = exponent(float(np.abs(M @ sol - rhs_s).max()) / max(1e-300, float(np.abs(rhs_s).max())))
                    except Exception as ex:  # noqa
                        e["raised"] = 1
                        e["error"] = repr(ex)[:160]
                    events.append(e)
    # (b1) systems of unusual magnitude: micrometre / ten-micrometre voxels in 3-D (lumped face masses of 1e-15 ... 1e-18) with face
    # weights down to 1e-2, and kilometre voxels; direct back-end, every formulation solves the same system (judged relative to
    # the solution of the full system)
    for s_, hh in (((4, 5, 3), [1e-5] * 3), ((3, 3, 2), [1e-6, 2e-6, 1e-6]), ((4, 3), [1e3, 2e3])):
        grid = darsia.Grid(tuple(s_), hh)
        nf, nc = int(grid.num_faces), int(grid.num_cells)
        fw = np.array([10 ** rng.uniform(-2, 1) for _ in range(nf)])
        rhs_m = random_rhs(rng, nf, nc, True)
        rhs_m[nf:nf + nc] *= float(np.prod(hh))          # sources of the size of a cell's mass
        refm = None
        for form, backend in (("full", "direct"), ("flux_reduced", "direct"), ("pressure", "direct")):
            e = {"tid": f"agree:magnitude:{'x'.join(map(str, s_))}:{form}:{backend}", "op": "agree", "form": form, "backend": backend, "shape": list(s_), "raised": 0, "errexp": 3, "resexp": 3}
            try:
                sol, M = solve_with(darsia, rng, grid, form, backend, fw, rhs_m)
                if refm is None:
                    refm = np.asarray(sol, dtype=float)        # the full formulation (direct) is the reference at this scale
                e["errexp"] = exponent(relerr(sol, refm, (nf, nc)))
                e["resexp"] = -17
            except Exception as ex:  # noqa
                e["raised"] = 1
                e["error"] = repr(ex)[:160]
            events.append(e)
    # (b2) the caller's options on systems large enough for a real multigrid hierarchy (pyamg coarsens above 100 unknowns):
    # ONE options dict (tight tolerances) serves two set-ups of one solver object and a second object; every solve has to
    # reach the requested accuracy and the dict stays the caller's
    import copy as _copy
    for (s, form, backend) in ([((12, 10), "pressure", "amg"), ((12, 10), "flux_reduced", "amg"), ((12, 10), "pressure", "cg")] +
                                ([] if quick else [((5, 5, 5), "pressure", "amg"), ((5, 5, 5), "flux_reduced", "amg"), ((16, 9), "pressure", "cg")])):
        h = [rng.choice([1.0, 0.5]) for _ in s]
        grid = darsia.Grid(tuple(s), h)
        nf, nc = int(grid.num_faces), int(grid.num_cells)
        fw = np.array([10 ** rng.uniform(-1.0, 1.0) for _ in range(nf)])
        opts = {"formulation": form, "linear_solver": backend, "linear_solver_options": {"atol": 1e-12, "rtol": 1e-12, "maxiter": 3000}, "num_iter": 3}
        snap = _copy.deepcopy(opts)
        step = 0
        try:
            with warnings.catch_warnings():
                warnings.simplefilter("ignore")
                w1 = darsia.WassersteinDistanceNewton(grid, None, opts)
                M = full_system(grid, int(w1.constrained_cell_flat_index), fw)
                for (wobj, label) in ((w1, "first-setup"), (w1, "second-setup"), (None, "second-object")):
                    if wobj is None:
                        wobj = darsia.WassersteinDistanceNewton(grid, None, opts)
                    rhs = random_rhs(rng, nf, nc, True)
                    sol, _ = wobj.linear_solve(M.copy(), rhs.copy())
                    ref = dense_solve(M, rhs)
                    events.append({"tid": f"agree:options:{'x'.join(map(str, s))}:{form}:{backend}:{label}", "op": "agree", "form": form, "backend": backend, "shape": list(s),
                                   "raised": 0, "errexp": exponent(relerr(np.asarray(sol, dtype=float), ref)),
                                   "resexp": exponent(float(np.abs(M @ sol - rhs).max()) / max(1e-300, float(np.abs(rhs).max()))), "label": label})
                    step += 1
        except Exception as ex:  # noqa
            events.append({"tid": f"agree:options:{'x'.join(map(str, s))}:{form}:{backend}:step{step}", "op": "agree", "form": form, "backend": backend, "shape": list(s),
                           "raised": 1, "errexp": 3, "resexp": 3, "error": repr(ex)[:160], "label": f"step{step}"})
        events.append({"tid": f"options:{'x'.join(map(str, s))}:{form}:{backend}", "op": "options", "form": form, "backend": backend, "shape": list(s),
                       "unchanged": int(opts == snap)})
    # (c) reuse of a cached factorisation, histories from TLC
    grid = darsia.Grid((3, 3), [1.0, 0.5])
    nf, nc = int(grid.num_faces), int(grid.num_cells)
    fws = {1: np.array([10 ** rng.uniform(-1, 1) for _ in range(nf)]), 2: np.array([10 ** rng.uniform(-1, 1) for _ in range(nf)])}
    # every formulation / back-end with every history of at most two solves (the shortest ones that separate "set up once,
    # then reuse" from "set up twice"), plus a sample (thorough: all) of the longer histories
    short = [h for h in hists if len(h) <= 3]       # (three solves: e.g. reuse on A1, new set-up for A2, reuse on A2)
    longer = [h for h in hists if len(h) > 3]
    # of the longer ones always those in which BOTH matrices are solved with a reused set-up (set up A1, reuse, set up A2, reuse)
    both = [h for h in longer if {m for (m, re) in h if re} == {1, 2}]
    rest = [h for h in longer if h not in both]
    sel = []
    for combo in combos:
        sel += [(combo, h) for h in short + both]
        sel += [(combo, h) for h in (rest if not quick else rng.sample(rest, min(len(rest), 3)))]
    for hi, ((form, backend), hist) in enumerate(sel):
        e = {"tid": f"reuse:{hi}", "op": "reuse", "hist": hist, "errs": [], "raised": 0, "form": form, "backend": backend}
        try:
            w = make_solver(darsia, grid, form, backend)
            pin = int(w.constrained_cell_flat_index)
            kept = []
            for (mat, reuse) in hist:
                M = full_system(grid, pin, fws[mat])
                rhs = random_rhs(rng, nf, nc, True)
                with warnings.catch_warnings():
                    warnings.simplefilter("ignore")
                    sol, _ = w.linear_solve(M.copy(), rhs.copy(), reuse_solver=bool(reuse))
                e["errs"].append(exponent(relerr(np.asarray(sol), dense_solve(M, rhs))))
                kept.append((sol, np.array(sol, copy=True)))
            # what a solve returned is the caller's: later solves on the same object leave the earlier solutions as they were
            for k_, (obj_, snap_) in enumerate(kept):
                if not np.array_equal(np.asarray(obj_), snap_):
                    e["errs"][k_] = 3
        except Exception as ex:  # noqa
            e["raised"] = 1
            e["error"] = repr(ex)[:160]
        events.append(e)
    # end to end: the choice of formulation / back-end changes no computed distance beyond tolerance
    for i in range(2 if quick else 12):
        s = rng.choice([(4, 3), (5,), (3, 2, 2), (6, 1)])
        h = [rng.choice([1.0, 0.5]) for _ in s]
        a1, a2 = random_masses(rng, s, rng.choice(["dense", "compact"]))
        img1, img2 = make_images(darsia, s, h, a1, a2)
        ds = []
        for form, backend in combos:
            opts = {"formulation": form, "linear_solver": backend, "linear_solver_options": dict(LSOPT), "num_iter": 12, "L": 1e-2}
            try:
                with warnings.catch_warnings():
                    warnings.simplefilter("ignore")
                    ds.append(float(darsia.wasserstein_distance(img1, img2, method="newton", options=opts)))
            except Exception as ex:  # noqa
                events.append({"tid": f"distance:{i}:{form}:{backend}", "op": "agree", "form": form, "backend": backend, "shape": list(s),
                               "raised": 1, "errexp": 3, "resexp": 3, "error": repr(ex)[:160]})
        if not ds:
            continue
        spread = (max(ds) - min(ds)) / max(1e-300, abs(np.mean(ds)))
        events.append({"tid": f"distance:{i}", "op": "distance", "shape": list(s), "spreadexp": exponent(spread), "distances6": [int(round(1e6 * d)) for d in ds]})
    bad = ck.validate("Trace_LinSolve", "Trace.cfg", events, weight=lambda e: 5 + len(e.get("rind", [])), budget=4000)
    for b in bad:
        e = b["event"]
        if e["op"] == "pattern":
            sig = f"C08:{b['clause']}:pattern:{len(e['shape'])}d"
        elif e["op"] == "dispatch":
            sig = f"C08:Dispatch:{e['form']}:{e['backend']}"
        else:
            sig = f"C08:{b['clause']}:{e['op']}:{e.get('form','')}:{e.get('backend','')}"
        ck.violation(sig, f"{e['op']} violates {b['clause']}", {k: v for k, v in e.items() if k not in ("rind", "rptr", "find", "fptr", "rm", "fidx", "fidxfull")})
    ck.cov["evaluations"] = len(events)
    ck.cov["distinct_nontrivial"] = len({(e["op"], tuple(e.get("shape", [])), e.get("form"), e.get("backend"), json.dumps(e.get("hist"))) for e in events})
    ck.cov["rule"] = "index patterns for every shape enumerated by TLC; the full dispatch table; numeric agreement on seeded weights (three decades) and right-hand sides; reuse histories enumerated by TLC (all sequences <= 4 over two matrices and the reuse flag, under the unchanged-matrix precondition); non-trivial = distinct (clause kind, shape, formulation, back-end, history)"
    ck.cov["samples"] = [{k: v for k, v in events[0].items() if k in ("tid", "shape", "pin", "rm")}, [e for e in events if e["op"] == "reuse"][:1]]
    ck.assumptions += ["reference solution: dense numpy solve of the mixed system assembled by the harness from the connectivity table",
                       "iterative back-ends run with atol=rtol=1e-13; agreement threshold 1e-6 relative"]
