"""C07 — grid numbering and connectivity form a consistent bijection."""
import json
import random

import numpy as np

from lib.core import import_darsia

LEVEL = "model_checking"


def tables(grid, tid):
    dim = grid.dim
    ci = np.asarray(grid.cell_index)
    cells = [[int(i) for i in idx] + [int(ci[idx])] for idx in np.ndindex(*ci.shape)]
    return {
        "tid": tid,
        "shape": [int(s) for s in grid.shape],
        "cells": cells,
        "nfpa": [int(n) for n in grid.num_faces_per_axis],
        "faces": [[int(f) for f in grid.faces[d]] for d in range(dim)],
        "conn": [[int(a), int(b)] for a, b in np.asarray(grid.connectivity)],
        "rev": [[[int(a), int(b)] for a, b in np.asarray(grid.reverse_connectivity)[d]] for d in range(dim)],
        "interior": [[int(f) for f in grid.interior_faces[d]] for d in range(dim)],
        "exterior": [[int(f) for f in grid.exterior_faces[d]] for d in range(dim)],
        "corners": [[int(round(float(x))) for x in c] for c in np.asarray(grid.cell_corners)]
        if np.allclose(np.asarray(grid.cell_corners), np.round(np.asarray(grid.cell_corners))) else [[-9] * dim],
        "cci": [[[int(k) for k in side] for side in f] for f in np.asarray(grid.cell_corner_indices)],
        # scalar bookkeeping and the array-shaped face numbering consumers reshape with
        "nf": int(grid.num_faces), "nc": int(grid.num_cells),
        "fshape": [[int(x) for x in grid.faces_shape[d]] for d in range(dim)],
        "fidx_ok": int(all(tuple(np.asarray(grid.face_index[d]).shape) == tuple(grid.faces_shape[d])
                           and np.array_equal(np.ravel(np.asarray(grid.face_index[d]), "F"), np.asarray(grid.faces[d])) for d in range(dim))),
        "kinds": "".join(np.asarray(a).dtype.kind for a in (grid.connectivity, grid.reverse_connectivity, grid.cell_corner_indices, grid.cell_index)),
    }


ROUTE = [0]


def big_summary(grid, tid):
    s = tuple(int(x) for x in grid.shape)
    dim = len(s)
    conn = np.asarray(grid.connectivity).astype(np.int64)
    rev = [np.asarray(grid.reverse_connectivity)[d].astype(np.int64) for d in range(dim)]
    strides = [int(np.prod(s[:d])) for d in range(dim)]          # F-order cell numbering
    nfpa = [int(np.prod([s[a] - (1 if a == d else 0) for a in range(dim)])) for d in range(dim)]
    e = {"tid": tid, "op": "big", "shape": list(s), "nf": int(grid.num_faces), "nc": int(grid.num_cells)}
    e["counts_ok"] = int(int(grid.num_faces) == sum(nfpa) and [int(x) for x in grid.num_faces_per_axis] == nfpa and int(grid.num_cells) == int(np.prod(s)) and conn.shape == (sum(nfpa), 2))
    ok_n, ok_r, ok_p, ok_kind = True, True, True, True
    try:
        coords = np.array(np.unravel_index(np.arange(int(np.prod(s))), s, order="F")).T
        for d in range(dim):
            f = np.asarray(grid.faces[d]).astype(np.int64)
            a, b = conn[f, 0], conn[f, 1]
            ok_n &= bool(len(f) == nfpa[d] and np.all(b - a == strides[d]) and np.all(coords[a, d] + 1 == coords[b, d]) and len(np.unique(f)) == len(f))
            ok_r &= bool(np.all(rev[d][a, 1] == f) and np.all(rev[d][b, 0] == f) and int(np.sum(rev[d] != -1)) == 2 * nfpa[d] and np.all(rev[d] >= -1))
            inter, exter = np.asarray(grid.interior_faces[d]).astype(np.int64), np.asarray(grid.exterior_faces[d]).astype(np.int64)
            ok_p &= bool(len(np.intersect1d(inter, exter)) == 0 and np.array_equal(np.sort(np.concatenate([inter, exter])), np.sort(f)))
        ok_kind = all(np.asarray(x).dtype.kind in "iu" for x in (grid.connectivity, grid.reverse_connectivity, grid.cell_index))
    except Exception:  # noqa
        ok_n = ok_r = ok_p = False
    e.update(neighbours_ok=int(ok_n), rev_inverse_ok=int(ok_r), partition_ok=int(ok_p), kinds_ok=int(ok_kind))
    return e


def run(ck, replay=None):
    ck.sany("MC_Grid", "Trace_Grid")
    cfg = f"MC_Grid_{ck.tier}.cfg"
    r = ck.model_check("MC_Grid", cfg, workers=8, big=(ck.tier == "thorough"))
    if ck.tier == "thorough":
        # numbering lemma for ALL 3-D shapes with extents up to 100000 (Apalache, integer SMT), with its vacuity guards
        if ck.apalache("MC_GridLemma", "Lemma"):
            ck.apalache("MC_GridLemma", "WrongStride", expect_error=True)
            ck.apalache("MC_GridLemma", "WrongInjective", expect_error=True)
    shapes = [tuple(p[1]) for p in r.printed("SCN")]
    if replay:
        shapes = [tuple(c["shape"]) for c in json.load(open(replay))["cases"]]
    shapes = sorted(set(shapes))
    darsia = import_darsia()
    rng = random.Random(ck.seed)
    # grids that agree in everything a memo could be keyed by except the shape itself (same number of cells per face layer /
    # one voxel layer moved to another axis), built and read along every interleaving of spec/TwoObjects.tla
    from lib import twoobj
    hists = twoobj.histories(ck)
    ntwin = 0
    tspecs = []
    for sa, sb in (((2, 5), (3, 4)), ((4, 5), (5, 4)), ((2, 3, 3), (3, 2, 3)), ((3, 5), (5, 3))):
        def make(o, sa=sa, sb=sb):
            return darsia.Grid(sa if o == "a" else sb, [0.5] * len(sa))

        def use(o, g):
            t = tables(g, "")
            del t["tid"]
            return json.dumps(t, sort_keys=True)

        sel = hists if ck.tier != "quick" else [h for h in hists if len(h) <= 4]
        tspecs.append((sel, "x".join(map(str, sa)) + "-" + "x".join(map(str, sb)), make, use, lambda x, y: x == y,
                                                       "twin:" + "x".join(map(str, sa))))
    ntwin = twoobj.run(ck, "C07", tspecs)
    events = []
    for s in shapes:
        events.append(tables(darsia.Grid(s), "grid:" + "x".join(map(str, s))))
        # anisotropic voxel sizes must not influence numbering
        vs = [rng.choice([0.1, 0.5, 2.0, 3e-3]) for _ in s]
        events.append(tables(darsia.Grid(s, vs), "grid-aniso:" + "x".join(map(str, s))))
        # the shape in the other forms callers hold it: list, integer arrays (np.array(image.num_voxels), shape // 2) - the
        # caller's array is not the grid's to modify
        ROUTE[0] += 1
        if ROUTE[0] % 3 == 0:
            events.append(tables(darsia.Grid(list(s), voxel_size=list(vs)), "grid-list:" + "x".join(map(str, s))))
        else:
            sarr = np.array(s, dtype=np.int64 if ROUTE[0] % 3 == 1 else np.int32)
            t_ = tables(darsia.Grid(sarr, np.array(vs)), "grid-array:" + "x".join(map(str, s)))
            if not np.array_equal(sarr, np.array(s)):
                t_["shape"] = [-1] * len(s)          # the caller's shape array was written to
            events.append(t_)
    # large grids (tens of thousands of faces - more than 2**15, index arithmetic in narrow integer types would wrap): the clauses are
    # evaluated on the tables by vectorised harness code, TLC relates the verdict flags (E4)
    for s in ([(150, 150), (30, 30, 30)] if ck.tier == "quick" else [(150, 150), (181, 181), (30, 30, 30), (40, 100, 8), (300, 220)]):
        events.append(big_summary(darsia.Grid(s, [0.5] * len(s)), "big:" + "x".join(map(str, s))))
    # image-derived grids beyond the TLC bound (trace spec is unbounded)
    nimg = 6 if ck.tier == "quick" else 40
    for i in range(nimg):
        dim = rng.choice([2, 2, 3])
        hi = 9 if dim == 2 else 5
        shp = tuple(rng.randint(1, hi) for _ in range(dim))
        kind = rng.choice(["scalar", "vector", "series"])
        extra = {"scalar": (), "vector": (3,), "series": (2,)}[kind]
        arr = np.zeros(shp + extra)
        kw = dict(space_dim=dim, dimensions=[rng.uniform(0.1, 5) for _ in shp])
        if kind == "vector":
            kw.update(scalar=False)
        if kind == "series":
            kw.update(series=True)
        img = darsia.Image(arr, **kw)
        g = darsia.generate_grid(img)
        ev = tables(g, f"image-grid:{i}:{kind}:" + "x".join(map(str, shp)))
        events.append(ev)
        if tuple(ev["shape"]) != shp or not np.allclose(np.asarray(g.voxel_size), np.asarray(img.voxel_size)):
            ck.violation(f"C07:generate_grid:shape-or-voxelsize:{dim}d", "generate_grid does not reproduce the image's voxel shape/size",
                         {"shape": shp, "kind": kind})
    # observed executions: every grid the repository's own unit tests construct (recorded from outside, lib/suite_recorder.py)
    suite = ck.record_suite("grid", ["test_grid.py", "test_fv.py", "test_variational_wasserstein_distance.py", "test_patches.py"])
    for e in suite:
        if "unreadable" in e:
            ck.violation(f"C07:TablesReadable:suite:{len(e['shape'])}d", "a grid built by the unit tests has no readable tables", e)
    events += [e for e in suite if "unreadable" not in e]
    bad = ck.validate("Trace_Grid", "Trace.cfg", events, chunk=80)
    for b in bad:
        s = b["event"]["shape"]
        ck.violation(f"C07:{b['clause']}:{len(s)}d", f"grid tables violate clause {b['clause']}",
                     {"shape": s, "tid": b["tid"], "clause": b["clause"]})
    ck.cov["twin_object_histories"] = ntwin
    ck.cov["evaluations"] = len(events)
    ck.cov["distinct_nontrivial"] = len({tuple(e["shape"]) for e in events if e.get("op") == "big" or len(e["conn"]) > 0})
    ck.cov["rule"] = ("every shape enumerated by TLC (MC_Grid) is built with darsia.Grid (isotropic and anisotropic voxel sizes), "
                      "plus seeded image-derived grids; non-trivial = distinct shape with at least one inner face")
    ck.cov["exhaustive"] = True
    ck.cov["samples"] = [{"tid": e["tid"], "shape": e["shape"], "conn": e["conn"][:6], "nfpa": e["nfpa"]} for e in [x for x in events if x.get("op") != "big"][5:8]]
    ck.assumptions += ["cell numbering is taken from the implementation's own cell_index table",
                       "shape range: " + cfg]
