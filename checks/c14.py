"""C14 — signal-to-data models obey their defining algebra."""
import itertools
import json
import random
import warnings

import numpy as np

from lib.core import import_darsia
from checks.wcommon import exponent

LEVEL = "model_checking"
NONE = -999999
BAD = 99999999


def ints(a, scale=1):
    a = np.asarray(a, dtype=float).ravel() * scale
    r = np.round(a)
    ok = np.abs(a - r) <= 1e-9 * (1 + np.abs(r))
    r = r.astype(np.int64)
    r[~ok] = BAD
    return r.tolist()


def build(darsia, m):
    if m[0] == "scaling":
        return darsia.ScalingModel(scaling=float(m[1]))
    if m[0] == "linear":
        return darsia.LinearModel(scaling=float(m[1]), offset=float(m[2]))
    return darsia.ClipModel(**{"min value": float(m[1]), "max value": None if m[2] == NONE else float(m[2])})


def readback(model):
    n = type(model).__name__
    if n == "ScalingModel":
        return ["scaling", int(round(model._scaling))]
    if n == "LinearModel":
        return ["linear", int(round(model._scaling)), int(round(model._offset))]
    return ["clip", int(round(model._min_value)), NONE if model._max_value is None else int(round(model._max_value))]


def signal(rng, form):
    shape = {"pixels": (7,), "2d": (3, 4), "3d": (2, 3, 2)}[form]
    return np.array([rng.randint(-4, 9) for _ in range(int(np.prod(shape)))], dtype=float).reshape(shape)


LABMAG = [-1]


def events(darsia, rng, stacks, degrees, quick):
    ev = []
    forms = ["pixels", "2d", "3d"]
    # clip
    for i in range(12 if quick else 60):
        lo, hi = rng.randint(-2, 3), rng.choice([NONE, rng.randint(3, 8)])
        x = signal(rng, rng.choice(forms))
        m = build(darsia, ["clip", lo, hi])
        if i % 2 == 1:
            # the bounds are replaced after construction (update / parameter vector), zero included: the model clips to the NEW
            # bounds.  An upper bound can only be replaced by a number (None = keep).
            new_lo = rng.choice([0, 0, -1, 2])
            new_hi = rng.choice([0, 3, 7]) if new_lo <= 0 else rng.choice([3, 7])
            how = rng.choice(["update", "vector", "lower-only"])
            if how == "update":
                m.update(min_value=float(new_lo), max_value=float(new_hi))
                lo, hi = new_lo, new_hi
            elif how == "vector":
                m.update_model_parameters(np.array([float(new_lo), float(new_hi)]))
                lo, hi = new_lo, new_hi
            elif hi == NONE or new_lo <= hi:
                m.update(min_value=float(new_lo))
                lo = new_lo
        if rng.random() < 0.4:
            img = darsia.Image(x.reshape(x.shape[0], -1) if x.ndim != 2 else x, space_dim=2, scalar=True)
            r1 = m(img)
            r2 = m(r1)
            res, res2, xin = r1.img, r2.img, img.img
        else:
            r1 = m(x)
            res, res2, xin = r1, m(r1), x
        ev.append({"tid": f"clip:{i}", "op": "clip", "lo": lo, "hi": hi, "x": ints(xin), "res": ints(res), "res2": ints(res2)})
    # scaling / linear
    for i in range(6 if quick else 40):
        m = rng.choice([["scaling", rng.randint(-3, 4)], ["linear", rng.randint(-3, 4), rng.randint(-5, 5)], ["scaling", 1]])
        x = signal(rng, rng.choice(forms))
        ev.append({"tid": f"affine:{i}", "op": "affine", "model": m, "x": ints(x), "res": ints(build(darsia, m)(x))})
    # combined models: composition and routing
    for si, stack in enumerate(stacks):
        if not stack:
            continue
        ms = []
        for m in stack:
            if m[0] == "scaling":
                ms.append(["scaling", rng.randint(2, 4)])
            elif m[0] == "linear":
                ms.append(["linear", rng.randint(-2, 3), rng.randint(-3, 3)])
            else:
                ms.append(["clip", rng.randint(-1, 2), rng.randint(4, 9)])
        x = signal(rng, rng.choice(forms))
        cm = darsia.CombinedModel([build(darsia, m) for m in ms])
        ev.append({"tid": f"combined:{si}", "op": "combined", "models": ms, "x": ints(x), "res": ints(cm(x))})
        names = {"scaling": ["scaling"], "linear": ["scaling", "offset"], "clip": ["min_value", "max_value"]}
        alld = [[k, nm] for k, m in enumerate(ms) for nm in names[m[0]]]
        total = len(alld)
        # "all" (both spellings of the default), and every subset of the updatable parameters (in order)
        subsets = [("all", None), ("all", "all")]
        for r in range(1, total + 1):
            for sub in itertools.combinations(range(total), r):
                subsets.append(([alld[j] for j in sub], [alld[j] for j in sub]))
        # dof lists need not follow the declaration order: permuted and interleaved orders as well
        for _ in range(3):
            r = rng.randint(2, total) if total >= 2 else 1
            perm = rng.sample(range(total), r)
            subsets.append(([alld[j] for j in perm], [alld[j] for j in perm]))
        if total >= 2:
            rev = list(reversed(range(total)))
            subsets.append(([alld[j] for j in rev], [alld[j] for j in rev]))
        if quick and len(subsets) > 10:
            subsets = subsets[:2] + rng.sample(subsets[2:-4], 4) + subsets[-4:]
        for qi, (dofs_log, dofs_arg) in enumerate(subsets):
            n = total if dofs_log == "all" else len(dofs_log)
            params = [rng.randint(10, 40) for _ in range(n)]
            cm = darsia.CombinedModel([build(darsia, m) for m in ms])
            e = {"tid": f"route:{si}:{qi}", "op": "route", "models": ms, "params": params, "dofs": [] if dofs_log == "all" else dofs_log, "dofsall": int(dofs_log == "all"), "raised": 0, "after": [], "arg": "None" if dofs_arg is None else "given", "x": [], "resafter": []}
            try:
                arg = None if dofs_arg is None else ("all" if dofs_arg == "all" else [tuple(d) for d in dofs_arg])
                cm.update_model_parameters(np.array(params, dtype=float), arg)
                e["after"] = [readback(m) for m in cm.models]
                # ... and the combined model then EVALUATES with the routed parameters (clip bounds in order only)
                if all(not (a_[0] == "clip" and a_[2] != NONE and a_[1] > a_[2]) for a_ in e["after"]):
                    xs = signal(rng, rng.choice(forms))
                    e["x"] = ints(xs)
                    e["resafter"] = ints(cm(xs))
            except Exception as ex:  # noqa
                e["raised"] = 1
                e["error"] = repr(ex)[:160]
            ev.append(e)
    # heterogeneous linear model and thresholds
    for i in range(8 if quick else 60):
        shape = (rng.randint(2, 4), rng.randint(2, 4))
        nl = rng.randint(1, 5)
        labs = sorted(rng.sample(range(0, 9), nl))
        labels = np.array([rng.choice(labs) for _ in range(shape[0] * shape[1])]).reshape(shape)
        for l_ in labs:
            labels.ravel()[rng.randrange(labels.size)] = l_
        # (label ids by turns: small; composed / offset labelings with ids beyond 2**15 and 2**16; negative ids)
        LABMAG[0] += 1
        ldtype = np.uint8
        if LABMAG[0] % 3 == 1:
            labels, ldtype = labels * 20000 + 7, np.int32
        elif LABMAG[0] % 3 == 2:
            labels, ldtype = labels * 4100, np.uint16
        uniq = sorted(set(labels.ravel().tolist()))
        a = [rng.randint(-2, 3) for _ in uniq]
        b = [rng.randint(-3, 3) for _ in uniq]
        x = np.array([rng.randint(-4, 9) for _ in range(labels.size)], dtype=float).reshape(shape)
        # half-integer parameters (logged doubled, like the result) and signals of the pixel types images come in: the label-wise
        # result is the homogeneous model's, not its truncation to the signal's integer type
        sdt = rng.choice(["float64", "float64", "float32", "int64", "uint8"])
        if sdt == "uint8":
            x = np.abs(x)
        x = x.astype(sdt)
        e = {"tid": f"hetlinear:{i}", "op": "hetlinear", "labels": labels.ravel().tolist(), "uniq": uniq, "a": a, "b": b, "x": ints(x), "raised": 0, "res": [], "shape": list(shape), "sdtype": sdt}
        try:
            hm = darsia.HeterogeneousLinearModel(labels.astype(ldtype), scaling=[0.5 * v for v in a], offset=[0.5 * v for v in b])
            if rng.random() < 0.5:
                par = [rng.randint(-2, 3) for _ in uniq] + [rng.randint(-3, 3) for _ in uniq]
                hm.update_model_parameters(0.5 * np.array(par, dtype=float))
                e["a"], e["b"] = par[: len(uniq)], par[len(uniq):]
            e["res"] = ints(2.0 * np.asarray(hm(x), dtype=float))
        except Exception as ex:  # noqa
            e["raised"] = 1
            e["error"] = repr(ex)[:160]
        ev.append(e)
        # the same label-wise model applied to signals of other resolutions, one after the other (coarser, native, finer,
        # native): each result is the per-label affine map on the label map brought to the signal's resolution (nearest
        # neighbour: source index = floor(target index * source extent / target extent))
        if i % 2 == 0 and e["raised"] == 0:
            for step, fac in enumerate(rng.choice([[(1, 2), (1, 1), (2, 1), (1, 1)], [(2, 1), (1, 2), (1, 1)], [(1, 2), (2, 1)]])):
                shp = (shape[0] * fac[0] * 2 // (fac[1] * 2) if fac[1] == 1 else max(1, shape[0] // fac[1]),
                       shape[1] * fac[0] if fac[1] == 1 else max(1, shape[1] // fac[1]))
                lab_r = np.array([[labels[(r * shape[0]) // shp[0], (c * shape[1]) // shp[1]] for c in range(shp[1])] for r in range(shp[0])])
                xs = np.array([rng.randint(0, 9) for _ in range(shp[0] * shp[1])], dtype=float).reshape(shp).astype(sdt)
                e2 = {"tid": f"hetlinear:{i}:seq{step}", "op": "hetlinear", "labels": lab_r.ravel().tolist(), "uniq": uniq, "a": e["a"], "b": e["b"], "x": ints(xs),
                      "raised": 0, "res": [], "shape": list(shp)}
                try:
                    e2["res"] = ints(2.0 * np.asarray(hm(xs), dtype=float))
                except Exception as ex:  # noqa
                    e2["raised"] = 1
                    e2["error"] = repr(ex)[:160]
                ev.append(e2)
        # the model object lives on: single parameters are replaced after it has been evaluated (calibration loops do this),
        # through every entry point, and it is evaluated again on signals of the shape it has seen last or of another one
        if e["raised"] == 0:
            cur_a, cur_b = list(e["a"]), list(e["b"])
            for step in range(rng.randint(2, 4)):
                how = rng.choice(["update-offset", "update-scaling", "vector-offset", "vector-scaling", "vector-all", "update-both"])
                na = [rng.randint(-2, 3) for _ in uniq]
                nb = [rng.randint(-3, 3) for _ in uniq]
                xs = np.array([rng.randint(0, 9) for _ in range(labels.size)], dtype=float).reshape(shape).astype(sdt)
                e3 = {"tid": f"hetlinear:{i}:upd{step}:{how}", "op": "hetlinear", "labels": labels.ravel().tolist(), "uniq": uniq, "x": ints(xs),
                      "raised": 0, "res": [], "shape": list(shape)}
                try:
                    if rng.random() < 0.5:
                        hm(xs)            # evaluated with the parameters of before
                    if how == "update-offset":
                        hm.update(offset=0.5 * np.array(nb, dtype=float)); cur_b = nb
                    elif how == "update-scaling":
                        hm.update(scaling=0.5 * np.array(na, dtype=float)); cur_a = na
                    elif how == "update-both":
                        hm.update(scaling=0.5 * np.array(na, dtype=float), offset=0.5 * np.array(nb, dtype=float)); cur_a, cur_b = na, nb
                    elif how == "vector-offset":
                        hm.update_model_parameters(0.5 * np.array(nb, dtype=float), ["offset"]); cur_b = nb
                    elif how == "vector-scaling":
                        hm.update_model_parameters(0.5 * np.array(na, dtype=float), ["scaling"]); cur_a = na
                    else:
                        hm.update_model_parameters(0.5 * np.array(na + nb, dtype=float), rng.choice([None, "all", ["scaling", "offset"]])); cur_a, cur_b = na, nb
                    e3["res"] = ints(2.0 * np.asarray(hm(xs), dtype=float))
                except Exception as ex:  # noqa
                    e3["raised"] = 1
                    e3["error"] = repr(ex)[:160]
                e3["a"], e3["b"] = list(cur_a), list(cur_b)
                ev.append(e3)
        mask = np.array([rng.randint(0, 1) for _ in range(labels.size)]).reshape(shape).astype(bool)
        lo, hi = rng.randint(-1, 3), rng.choice([NONE, rng.randint(4, 8)])
        tm = darsia.StaticThresholdModel(float(lo), None if hi == NONE else float(hi))
        use_mask = rng.random() < 0.6
        r = tm(x, mask) if use_mask else tm(x)
        ev.append({"tid": f"threshold:{i}", "op": "threshold", "lo": lo, "hi": hi, "mask": mask.ravel().astype(int).tolist() if use_mask else [1] * labels.size,
                   "x": ints(x), "res": np.asarray(r).astype(int).ravel().tolist()})
        los = [rng.randint(-1, 3) for _ in uniq]
        his = [rng.randint(4, 8) for _ in uniq] if rng.random() < 0.7 else []
        tmh = darsia.StaticThresholdModel([float(v) for v in los], [float(v) for v in his] if his else None, labels=labels)
        r = tmh(x, mask) if use_mask else tmh(x)
        ev.append({"tid": f"hetthreshold:{i}", "op": "hetthreshold", "labels": labels.ravel().tolist(), "uniq": uniq, "lo": los, "hi": his,
                   "mask": mask.ravel().astype(int).tolist() if use_mask else [1] * labels.size, "x": ints(x), "res": np.asarray(r).astype(int).ravel().tolist()})
    # polynomial approximation space: exponent pairs recovered from values at (2, 3)
    for d in degrees:
        sp = darsia.PolynomialApproximationSpace(d)
        pt = np.array([[2.0, 3.0]])
        exps = []
        for k in range(sp.size):
            v = int(round(float(np.asarray(sp.basis(pt, k)).ravel()[0])))
            i = j = 0
            while v % 2 == 0 and v > 0:
                v //= 2
                i += 1
            while v % 3 == 0 and v > 0:
                v //= 3
                j += 1
            exps.append([i, j] if v == 1 else [-1, -1])
        ev.append({"tid": f"polyspace:{d}", "op": "polyspace", "d": d, "size": int(sp.size), "exps": exps})
    # kernel interpolation (E4).  Every configuration is followed by a twin on the SAME support points with another kernel
    # parameter (shift of the linear kernel, width of the Gaussian), and the first object is evaluated again afterwards:
    # an interpolation reproduces ITS values with ITS kernel whatever other interpolation objects exist
    KFORM = [-1]

    def kernel_case(kern, gaussian, sup, vals, tid, ki=None):
        with warnings.catch_warnings():
            warnings.simplefilter("ignore")
            ki = ki or darsia.KernelInterpolation(kern, sup.copy(), vals.copy())
            at = np.asarray(ki(np.asarray(ki.supports, dtype=np.float32)), dtype=float)
            cond = np.linalg.cond(ki.X)
            # (signal layouts in turn, the smallest ones included: a list of one pixel, an image of one pixel, one row / column)
            KFORM[0] += 1
            form = ["pixels", "2d", "3d-as-2d", "one-pixel-list", "one-pixel-image", "one-row", "one-column"][KFORM[0] % 7]
            sig = np.random.RandomState(rng.randrange(10 ** 6)).rand(*{"pixels": (9, 3), "2d": (4, 5, 3), "3d-as-2d": (6, 2, 3), "one-pixel-list": (1, 3),
                                                                       "one-pixel-image": (1, 1, 3), "one-row": (1, 4, 3), "one-column": (5, 1, 3)}[form]).astype(np.float32)
            raw = ki(sig)
            acc = np.asarray(raw, dtype=float)
            if not isinstance(raw, np.ndarray) or raw.shape != sig.shape[:-1]:
                acc = np.full(sig.shape[:-1], 1e9)      # the result is an array with one value per pixel, laid out like the signal
        w = np.asarray(ki.interpolation_weights, dtype=float)
        S = np.asarray(ki.supports, dtype=float)
        plain = np.zeros(sig.shape[:-1])
        for n_ in range(len(S)):
            plain += w[n_] * np.asarray(kern(sig.astype(float), S[n_]), dtype=float)
        repro = float(np.abs(at - np.asarray(ki.values, dtype=float)).max())
        bound = min(-1, exponent(1e-6 * max(1.0, cond)) + 1)
        ev.append({"tid": tid, "op": "kernel", "gaussian": int(gaussian), "nsupports": len(S), "form": form,
                   "reproexp": exponent(repro), "reprobound": bound, "accexp": exponent(float(np.abs(acc - plain).max()) / max(1.0, float(np.abs(plain).max())))})
        return ki

    for i in range(6 if quick else 40):
        ns = rng.randint(1, 4)
        gaussian = rng.random() < 0.5
        p1, p2 = (rng.sample([0.5, 1.0, 2.0], 2)) if gaussian else rng.sample([1.0, 2.0, 0.5], 2)
        mk = (lambda g: darsia.GaussianKernel(gamma=g)) if gaussian else (lambda a_: darsia.LinearKernel(a=a_))
        sup = np.array([[rng.uniform(0, 1) + 1.5 * s_ if c_ == s_ % 3 else rng.uniform(0, 1) for c_ in range(3)] for s_ in range(ns)])
        vals = np.array([rng.uniform(0, 1) for _ in range(ns)])
        k1, k2 = mk(p1), mk(p2)
        ki1 = kernel_case(k1, gaussian, sup, vals, f"kernel:{i}")
        kernel_case(k2, gaussian, sup, vals, f"kernel:{i}:twin")
        kernel_case(k1, gaussian, sup, vals, f"kernel:{i}:again", ki=ki1)
    return ev


def run(ck, replay=None):
    ck.sany("MC_Models", "Trace_Models")
    r = ck.model_check("MC_Models", "MC_Models.cfg", workers=2)
    scn = r.printed("SCN")
    stacks = sorted({json.dumps(p[1]) for p in scn})
    stacks = [json.loads(s) for s in stacks]
    degrees = sorted({p[2] for p in scn})
    darsia = import_darsia()
    rng = random.Random(ck.seed)
    quick = ck.tier == "quick"
    # two model objects of one class that agree in what a shared memo could be keyed by (labels, supports, shapes) and differ
    # in their parameters, built and evaluated along every interleaving of spec/TwoObjects.tla
    from lib import twoobj
    thists = twoobj.histories(ck)
    ntwin = 0
    tspecs = []
    labels = (np.arange(24).reshape(4, 6) % 3).astype(np.uint8)
    sup = np.array([[0.1, 0.2, 0.3], [1.6, 0.4, 0.2], [0.3, 0.5, 1.9]])
    sig3 = np.random.RandomState(3).rand(4, 6, 3).astype(np.float32)
    sig1 = np.random.RandomState(4).rand(4, 6)
    twins = {
        "kernel-linear": (lambda o: darsia.KernelInterpolation(darsia.LinearKernel(a=1.0 if o == "a" else 2.0), sup.copy(), np.array([0.0, 0.5, 1.0])), lambda m: np.asarray(m(sig3), dtype=float)),
        "kernel-gaussian": (lambda o: darsia.KernelInterpolation(darsia.GaussianKernel(gamma=1.0 if o == "a" else 2.0), sup.copy(), np.array([0.0, 0.5, 1.0])), lambda m: np.asarray(m(sig3), dtype=float)),
        "hetlinear": (lambda o: darsia.HeterogeneousLinearModel(labels.copy(), scaling=[1.0, 2.0, 3.0] if o == "a" else [0.5, 0.25, 4.0], offset=[0.0, 1.0, -1.0] if o == "a" else [2.0, 0.0, 0.5]), lambda m: np.asarray(m(sig1), dtype=float)),
        "hetthreshold": (lambda o: darsia.StaticThresholdModel([0.2, 0.4, 0.6] if o == "a" else [0.5, 0.1, 0.3], None, labels=labels.copy()), lambda m: np.asarray(m(sig1), dtype=float)),
        "clip": (lambda o: darsia.ClipModel(**({"min value": 0.2, "max value": 0.7} if o == "a" else {"min value": 0.4, "max value": 0.9})), lambda m: np.asarray(m(sig1), dtype=float)),
        "combined": (lambda o: darsia.CombinedModel([darsia.LinearModel(scaling=2.0 if o == "a" else 3.0, offset=0.5), darsia.ClipModel(**{"min value": 0.0, "max value": 2.0 if o == "a" else 1.5})]), lambda m: np.asarray(m(sig1), dtype=float)),
    }
    def kernel_oracle(kern_of):
        out = {}
        for o in ("a", "b"):
            kern = kern_of(o)
            S = np.unique(np.round(sup, decimals=5), axis=0)     # (the supports are distinct: same order of values)
            K = np.array([[float(kern(S[i], S[j])) for j in range(len(S))] for i in range(len(S))])
            w = np.linalg.solve(K, np.array([0.0, 0.5, 1.0])[np.unique(np.round(sup, decimals=5), axis=0, return_index=True)[1]])
            out[o] = sum(w[n_] * np.asarray(kern(sig3.astype(float), S[n_]), dtype=float) for n_ in range(len(S)))
        return out

    oracles = {"kernel-linear": kernel_oracle(lambda o: darsia.LinearKernel(a=1.0 if o == "a" else 2.0)),
               "kernel-gaussian": kernel_oracle(lambda o: darsia.GaussianKernel(gamma=1.0 if o == "a" else 2.0))}
    for kind, (mk, ap) in twins.items():
        def make(o, mk=mk):
            with warnings.catch_warnings():
                warnings.simplefilter("ignore")
                return mk(o)

        def use(o, m, ap=ap):
            with warnings.catch_warnings():
                warnings.simplefilter("ignore")
                return ap(m)

        sel = thists if not quick else [h for h in thists if len(h) <= 4]
        tspecs.append((sel, kind, make, use, lambda x, y: x.shape == y.shape and np.allclose(x, y, rtol=1e-4, atol=1e-5), f"twin:{kind}",
                       oracles.get(kind)))
    ntwin = twoobj.run(ck, "C14", tspecs)
    ck.cov["twin_object_histories"] = ntwin
    ev = events(darsia, rng, stacks, degrees, quick)
    bad = ck.validate("Trace_Models", "Trace.cfg", ev, chunk=400)
    for b in bad:
        e = b["event"]
        extra = ""
        if e["op"] == "route":
            extra = ":" + ("all-" + e["arg"] if e["dofsall"] else "subset")
        if e["op"] == "polyspace":
            extra = f":degree{e['d']}"
        if e["op"] == "hetlinear":
            extra = ":" + ("square" if e["shape"][0] == e["shape"][1] else "nonsquare")
        ck.violation(f"C14:{b['clause']}:{e['op']}{extra}", f"{e['op']} violates {b['clause']}",
                     {k: v for k, v in e.items() if k in ("op", "models", "params", "dofs", "after", "error", "d", "exps", "shape", "lo", "hi", "uniq", "gaussian", "nsupports", "form", "reproexp", "reprobound", "accexp")})
    ck.cov["evaluations"] = len(ev)
    ck.cov["distinct_nontrivial"] = len({(e["op"], json.dumps(e.get("models")), json.dumps(e.get("dofs")), e.get("d")) for e in ev if e["op"] in ("route", "combined", "polyspace", "hetlinear", "kernel")})
    ck.cov["rule"] = "model stacks (all sequences of <= 3 of scaling/linear/clip) and degrees 0..4 enumerated by TLC; composition and routing for 'all' and every ordered dof subset; seeded clip/affine/heterogeneous/threshold cases on pixel lists, 2-D and 3-D arrays and Images; kernel interpolation through E4 observables; non-trivial = routing, composition, heterogeneous, polynomial or kernel cases"
    ck.cov["samples"] = [e for e in ev if e["op"] == "route"][:2]
    ck.assumptions += ["integer signals and parameters (exact in floating point); kernel checks in float32 with thresholds scaled by the kernel-matrix condition number"]
