"""C12 — colour balancing recovers exact colour maps and composes correctly."""
import json
import random
import warnings

import numpy as np

from lib.core import import_darsia, MachineryError
from checks.wcommon import exponent

LEVEL = "model_checking"
BAD = 99999999


def ints(a):
    a = np.asarray(a, dtype=float)
    r = np.round(a)
    ok = np.abs(a - r) <= 1e-9 * (1 + np.abs(r))
    r = r.astype(np.int64)
    r[~ok] = BAD
    return r.tolist()


def compose_event(darsia, rng, tid, stages):
    """Run AdaptiveBalance.find_balance with the stage fits replaced by assignment of TLC's integer balances."""
    import darsia.corrections.color.colorbalance as cb
    queue = [dict(s) for s in stages if s["mode"] != "reset"]

    class Stub:
        def __init__(self):
            self.balance_scaling = np.eye(3)
            self.balance_translation = np.zeros(3)

        def find_balance(self, src, dst):
            s = queue.pop(0)
            self.balance_scaling = np.array(s["A"], dtype=float)
            self.balance_translation = np.array(s["b"], dtype=float)

    saved = (cb.WhiteBalance, cb.ColorBalance, cb.AffineBalance)
    x = np.array([[rng.randint(-3, 5) for _ in range(3)] for _ in range(5)], dtype=float)
    x[rng.randrange(5)] = 0.0          # an exactly black swatch among them
    e = {"tid": tid, "op": "compose", "stages": stages, "x": ints(x), "raised": 0, "res": []}
    try:
        cb.WhiteBalance = cb.ColorBalance = cb.AffineBalance = Stub
        ab = darsia.AdaptiveBalance()
        for s in stages:
            if s["mode"] == "reset":
                ab.reset()
            else:
                ab.find_balance(x, x, mode=s["mode"])
        e["res"] = ints(ab.apply_balance(x))
        if rng.random() < 0.5:   # also the (4, 6, 3) swatch layout
            x3 = np.tile(x[:4, None, :], (1, 6, 1))
            r3 = ab.apply_balance(x3)
            if not np.allclose(r3[:, 0, :], np.asarray(e["res"], dtype=float)[:4]):
                e["res"] = [[BAD] * 3] * len(x)
    except Exception as ex:  # noqa
        e["raised"] = 1
        e["error"] = repr(ex)[:160]
    finally:
        cb.WhiteBalance, cb.ColorBalance, cb.AffineBalance = saved
    return e


SWP = [-1]


def swatches(rs, flat):
    base = rs.rand(24, 3) * 0.8 + 0.1
    # (a colour checker has them: an exactly black and an exactly white swatch, two grey swatches with equal channels, two
    # identical swatches, a pure colour with vanishing channels)
    SWP[0] += 1
    if SWP[0] % 2 == 1:
        base[0] = 0.0
        base[1] = 1.0
        base[2] = 0.5
        base[3] = 0.25
        base[5] = base[4]
        base[6] = [0.9, 0.0, 0.0]
    return base if flat else base.reshape(4, 6, 3)


def fit_event(darsia, rng, tid, cls_name, sdtype="float64"):
    """Exact recovery and monotonicity, for a fit from the neutral balance and for a second fit of the SAME object to another
    exact map (the fit then starts from the first, non-commuting balance)."""
    rs = np.random.RandomState(rng.randrange(10 ** 6))
    flat = rng.random() < 0.5
    src = swatches(rs, flat)
    # swatches as sampled from a raw image (8 / 16 bit integers) or float32: the balance maps exactly these values
    if sdtype.startswith("uint"):
        src = np.round(src * (200 if sdtype == "uint8" else 40000)).astype(sdtype)
    else:
        src = src.astype(sdtype)
    srcf = src.astype(np.float64)
    mag = float(srcf.max())

    def exact_map(scale):
        if cls_name == "WhiteBalance":
            return np.diag(1 + 2 * scale * (rs.rand(3) - 0.5)), np.zeros(3)
        if cls_name == "ColorBalance":
            return np.eye(3) + scale * (rs.rand(3, 3) - 0.5), np.zeros(3)
        return np.eye(3) + scale * (rs.rand(3, 3) - 0.5), 0.5 * scale * (rs.rand(3) - 0.5) * mag

    bal = getattr(darsia, cls_name)()
    out = []
    for start, scale in (("neutral", 0.1), ("fitted", 0.3)):
        A, b = exact_map(scale)
        dst = srcf @ A + b
        before = float(np.sum((np.asarray(bal.apply_balance(src), dtype=float) - dst) ** 2))
        with warnings.catch_warnings():
            warnings.simplefilter("ignore")
            bal.find_balance(src, dst)
        after_arr = np.asarray(bal.apply_balance(src), dtype=float)
        after = float(np.sum((after_arr - dst) ** 2))
        # residuals relative to the magnitude of the swatch values (1 for float swatches in [0, 1])
        out.append({"tid": f"{tid}:{start}", "op": "fit", "cls": cls_name, "start": start, "flat": int(flat), "sdtype": sdtype,
                    "resexp": exponent(float(np.abs(after_arr - dst).max()) / mag),
                    "monotone": int(after <= before * (1 + 1e-9) + 1e-15 * mag ** 2), "before6": int(round(1e6 * before / mag ** 2)), "after6": int(round(1e6 * after / mag ** 2))})
    return out


def staged_fit_event(darsia, rng, tid, modes):
    """Real fits in stages: the accumulated balance equals applying the fitted stage balances one after the other."""
    import darsia.corrections.color.colorbalance as cb
    rs = np.random.RandomState(rng.randrange(10 ** 6))
    src = swatches(rs, True)
    A, b = np.eye(3) + 0.3 * (rs.rand(3, 3) - 0.5), 0.1 * (rs.rand(3) - 0.5)
    dst = src @ A + b
    fitted = []
    saved = (cb.WhiteBalance, cb.ColorBalance, cb.AffineBalance)

    def spy(cls):
        class S(cls):
            def find_balance(self, s, d):
                super().find_balance(s, d)
                fitted.append((np.array(self.balance_scaling, dtype=float), np.array(getattr(self, "balance_translation", np.zeros(3)), dtype=float)))
        return S

    try:
        cb.WhiteBalance, cb.ColorBalance, cb.AffineBalance = spy(saved[0]), spy(saved[1]), spy(saved[2])
        ab = darsia.AdaptiveBalance()
        with warnings.catch_warnings():
            warnings.simplefilter("ignore")
            stage_res = [float(np.sum((src - dst) ** 2))]
            # an affine stage may be requested by omitting the mode (the documented default), whatever was requested before;
            # reset() in front of the last stage makes it a fit from the neutral balance
            do_reset = len(modes) >= 2 and rng.random() < 0.3
            for si, m in enumerate(modes):
                if do_reset and si == len(modes) - 1:
                    ab.reset()
                    del fitted[:]
                    stage_res = [float(np.sum((src - dst) ** 2))]
                if m == "affine" and rng.random() < 0.6:
                    ab.find_balance(src, dst)
                else:
                    ab.find_balance(src, dst, mode=m)
                stage_res.append(float(np.sum((ab.apply_balance(src) - dst) ** 2)))
        acc = ab.apply_balance(src)
    finally:
        cb.WhiteBalance, cb.ColorBalance, cb.AffineBalance = saved
    seq = src.copy()
    for (As, bs) in fitted:
        seq = seq @ As + bs
    # every stage is fitted on the swatches balanced so far: the residual against the destinations never goes up, and an
    # exactly affine destination is reached once an affine stage has been fitted
    mono = int(all(stage_res[i + 1] <= stage_res[i] * (1 + 1e-9) + 1e-15 for i in range(len(stage_res) - 1)))
    return {"tid": tid, "op": "staged_fit", "modes": list(modes), "seqexp": exponent(float(np.abs(acc - seq).max())), "monotone": mono,
            "lastaffine": int(modes[-1] == "affine"), "resexp": exponent(float(np.abs(acc - dst).max()))}


def run(ck, replay=None):
    ck.sany("MC_ColorBalance", "Trace_ColorBalance")
    r = ck.model_check("MC_ColorBalance", "MC_ColorBalance_fixed.cfg", workers=2)
    stage_lists = [p[1] for p in r.printed("SCN")]
    reg = ck.tlc("MC_ColorBalance", "MC_ColorBalance_asbuilt.cfg", workers=1, expect_ok=False, label="regression-model")
    if "AccumulatedIsSequential" not in reg.violated:
        raise MachineryError("ColorBalance model no longer rejects the column-vector accumulation (vacuity guard)")
    reg2 = ck.tlc("MC_ColorBalance", "MC_ColorBalance_resetkeepsb.cfg", workers=1, expect_ok=False, label="reset-keeps-translation")
    if "AccumulatedIsSequential" not in reg2.violated:
        raise MachineryError("ColorBalance model no longer rejects a reset() that keeps the translation (vacuity guard)")
    darsia = import_darsia()
    rng = random.Random(ck.seed)
    quick = ck.tier == "quick"
    # two balance objects of one class fitted to different targets (first stage diagonal / linear / affine), fitted and applied
    # along every interleaving of spec/TwoObjects.tla: each applies ITS balance
    from lib import twoobj
    thists = twoobj.histories(ck)
    ntwin = 0
    tspecs = []
    sw = np.random.RandomState(5).rand(12, 3)
    tkinds = [("AdaptiveBalance", "diagonal"), ("AdaptiveBalance", "affine"), ("AffineBalance", None)]
    if not quick:
        tkinds += [("AdaptiveBalance", "linear"), ("WhiteBalance", None), ("ColorBalance", None)]
    for cls_name, mode in tkinds:
        def make(o, cls_name=cls_name, mode=mode):
            D = np.diag([1.5, 0.5, 2.0]) if o == "a" else np.diag([0.75, 1.25, 0.5])
            dst = sw @ D + (0.05 if (o == "a" and (mode == "affine" or cls_name == "AffineBalance")) else 0.0)
            b = getattr(darsia, cls_name)()
            with warnings.catch_warnings():
                warnings.simplefilter("ignore")
                if mode is None:
                    b.find_balance(sw.copy(), dst)
                else:
                    b.find_balance(sw.copy(), dst, mode=mode)
            return b

        def use(o, b):
            return np.asarray(b.apply_balance(sw.copy()), dtype=float)

        sel = thists if not quick else [h for h in thists if len(h) <= 4]
        tspecs.append((sel, f"{cls_name}-{mode}", make, use, lambda x, y: x.shape == y.shape and np.allclose(x, y, rtol=1e-7, atol=1e-9), f"twin:{cls_name}:{mode}"))
    ntwin = twoobj.run(ck, "C12", tspecs)
    ck.cov["twin_object_histories"] = ntwin
    events = []
    sel = stage_lists if not quick else [s for s in stage_lists if len(s) <= 2] + rng.sample([s for s in stage_lists if len(s) == 3], 40) + [s for s in stage_lists if len(s) == 3 and s[1]["mode"] == "reset"]
    for i, st in enumerate(sel):
        events.append(compose_event(darsia, rng, f"compose:{i}", st))
    for i in range(15 if quick else 90):
        events += fit_event(darsia, rng, f"fit:{i}", ["WhiteBalance", "ColorBalance", "AffineBalance"][i % 3], ["float64", "uint8", "float32", "uint16", "float64"][(i // 3) % 5])
    import itertools
    modes = ["diagonal", "linear", "affine"]
    staged = list(itertools.product(modes, repeat=2)) + (list(itertools.product(modes, repeat=3)) if not quick else rng.sample(list(itertools.product(modes, repeat=3)), 4))
    for i, m in enumerate(staged):
        events.append(staged_fit_event(darsia, rng, f"staged:{i}", m))
    bad = ck.validate("Trace_ColorBalance", "Trace.cfg", events, chunk=300)
    for b in bad:
        e = b["event"]
        if e["op"] == "compose":
            sig = f"C12:{b['clause']}:compose:" + "+".join(s["mode"] for s in e["stages"])
        elif e["op"] == "fit":
            sig = f"C12:{b['clause']}:fit:{e['cls']}:{e['start']}:" + ("int" if e["sdtype"].startswith("uint") else "float")
        else:
            sig = f"C12:{b['clause']}:staged_fit:" + "+".join(e["modes"])
        ck.violation(sig, f"{e['op']} violates {b['clause']}", {k: v for k, v in e.items() if k not in ("x", "res")})
    ck.cov["evaluations"] = len(events)
    ck.cov["distinct_nontrivial"] = len({json.dumps(e.get("stages", e.get("modes", e.get("cls")))) for e in events if len(e.get("stages", e.get("modes", [1, 2]))) >= 2})
    ck.cov["rule"] = "stage sequences enumerated by TLC (all ordered sequences of <= 3 stages over a generating set of integer diagonal / linear / affine balances) composed through the real AdaptiveBalance with assigned stage balances; seeded fits of the three balance classes on 4x6x3 and Nx3 swatches; real staged fits for every ordered pair (and triple) of modes; non-trivial = at least two stages"
    ck.cov["samples"] = [events[0], [e for e in events if e["op"] == "fit"][0]]
    ck.assumptions += ["composition: the stage classes' fit is replaced by assignment of TLC's integer balances (harness-side patch), the accumulation under test is the repository's",
                       "fit recovery: residual <= 1e-3 max-norm after a Powell fit (tol 1e-6); real-valued clauses are E4 observables"]
