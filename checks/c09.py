"""C09 — coordinate transformations are invertible and move voxels exactly."""
import itertools
import json
import math
import random
import warnings

import numpy as np

from lib.core import import_darsia, MachineryError
from checks.wcommon import exponent

LEVEL = "model_checking"
BAD = 99999999


def imat(M):
    M = np.asarray(M, dtype=float)
    R = np.round(M)
    if np.abs(M - R).max() > 1e-9:
        return [[BAD] * M.shape[1]] * M.shape[0]
    return R.astype(int).tolist()


def ipts(X, scale=1):
    X = np.asarray(X, dtype=float) * scale
    R = np.round(X)
    ok = np.abs(X - R) <= 1e-9 * (1 + np.abs(X))
    R = R.astype(np.int64)
    R[~ok] = BAD
    return R.tolist()


SHARED = {}


PROUTE = [0]
KPAIR = [-1]


def affine_event(darsia, rng, dim, ks, tid, unit=False):
    # half of the events re-parametrise one long-lived object per dimension: the map is a function of the parameters set last
    A = SHARED.setdefault(dim, darsia.AffineTransformation(dim)) if rng.random() < 0.5 else darsia.AffineTransformation(dim)
    sn, sd = rng.choice([(1, 1), (2, 1), (1, 2)]) if not unit else (1, 1)
    t = [rng.randint(-5, 5) for _ in range(dim)]
    # the parameters reach the object by the routes the API offers, taken in turn: one call with keywords, positionally, one
    # parameter per call in any order (the object may hold other values from before), or as one vector
    rot = np.array([k * math.pi / 2 for k in ks])
    PROUTE[0] += 1
    proute = PROUTE[0] % 4
    if proute == 0:
        A.set_parameters(translation=np.array(t, dtype=float), scaling=sn / sd, rotation=rot)
    elif proute == 1:
        A.set_parameters(np.array(t, dtype=float), sn / sd, rot)
    elif proute == 2:
        calls_ = [dict(translation=np.array(t, dtype=float)), dict(scaling=sn / sd), dict(rotation=rot)]
        rng.shuffle(calls_)
        for kw_ in calls_:
            A.set_parameters(**kw_)
    else:
        A.isometry = False
        A.set_parameters_as_vector(np.concatenate([np.array(t, dtype=float), [sn / sd], rot]))
    pts = np.array([[rng.randint(-6, 6) for _ in range(dim)] for _ in range(6)], dtype=float)
    single = pts[0]
    fwd = A.call_array(pts)
    back = A.inverse(A(pts))
    back2 = A(A.inverse(pts))
    s1 = A.inverse(A(single))
    if np.asarray(s1).shape != single.shape or not np.allclose(np.asarray(s1), single, atol=1e-9):
        back = np.full_like(pts, 1e6)
    # typed calls: the map declared to take points of one kind (coordinate / voxel / voxel centre) to another returns objects
    # of the declared kinds - single point or batch - holding the values of the plain-array map (voxels floored, centres +1/2)
    typed_ok = 1
    kinds = {"X": (darsia.Coordinate, darsia.CoordinateArray, lambda z: z), "V": (darsia.Voxel, darsia.VoxelArray, lambda z: np.floor(z)),
             "C": (darsia.VoxelCenter, darsia.VoxelCenterArray, lambda z: np.floor(z) + 0.5)}
    # (kinds that floor - voxels, voxel centres - only for maps without rotation and scaling: cos(pi/2) = 6e-17 puts exact
    # images next to a voxel boundary, the subject of the open finding on voxel-typed quarter turns)
    if sn == sd and all(k % 4 == 0 for k in ks):
        KPAIR[0] += 1                      # every (source kind, destination kind) pair in turn
        k1, k2 = "XVC"[KPAIR[0] % 3], "XVC"[(KPAIR[0] // 3) % 3]
    else:
        k1, k2 = "X", "X"
    try:
        raw_in = pts + (0.5 if k1 == "C" else 0.0)
        tin = kinds[k1][1](raw_in.copy())
        B = darsia.AffineTransformation(dim)
        B.set_parameters(translation=np.array(t, dtype=float), scaling=sn / sd, rotation=np.array([k * math.pi / 2 for k in ks]))
        B.set_dtype(kinds[k1][1](raw_in[:1].copy()), kinds[k2][1](raw_in[:1].copy()))
        want = kinds[k2][2](np.round(B.call_array(raw_in), 9))
        got = B(tin)
        got1 = B(kinds[k1][0](raw_in[0].copy()))
        typed_ok &= int(type(got) is kinds[k2][1] and np.allclose(np.asarray(got, dtype=float), want, atol=1e-9))
        typed_ok &= int(type(got1) is kinds[k2][0] and np.asarray(got1).shape == (dim,) and np.allclose(np.asarray(got1, dtype=float), want[0], atol=1e-9))
        wantb = kinds[k1][2](np.round(B.inverse_array(np.asarray(got, dtype=float)), 9))
        gotb = B.inverse(got)
        typed_ok &= int(type(gotb) is kinds[k1][1] and np.allclose(np.asarray(gotb, dtype=float), wantb, atol=1e-9))
    except Exception:  # noqa
        typed_ok = 0
    return {"tid": tid, "op": "affine", "dim": dim, "k": list(ks), "sn": sn, "sd": sd, "t": t, "R": imat(A.rotation), "Rinv": imat(A.rotation_inv),
            "pts": ipts(pts), "fwd2": ipts(fwd, 2), "back": ipts(back), "back2": ipts(back2), "typed_ok": typed_ok, "kinds": k1 + k2}


def fit_events(darsia, rng, dim, tid):
    """Least-squares fits on ONE object, to exact images of the source points under a known map: general, isometry, general.
    Each fit has to reproduce its point pairs; a fit with isometry=True has unit scaling whatever the object held before."""
    import contextlib
    import io
    A = darsia.AffineTransformation(dim)
    out = []
    for step, iso in enumerate((False, True, False)):
        T = darsia.AffineTransformation(dim)
        ang = [rng.uniform(-0.6, 0.6) for _ in range(1 if dim == 2 else 3)]
        sc = 1.0 if iso else rng.choice([0.5, 2.0, 1.5])
        T.set_parameters(translation=np.array([rng.uniform(-3, 3) for _ in range(dim)]), scaling=sc, rotation=np.array(ang))
        src = np.array([[rng.uniform(-5, 5) for _ in range(dim)] for _ in range(8)])
        dst = T.call_array(src)
        e = {"tid": f"{tid}:{step}", "op": "fit", "dim": dim, "isometry": int(iso), "step": step, "raised": 0, "resexp": 3, "scaling6": 0}
        try:
            with contextlib.redirect_stdout(io.StringIO()), warnings.catch_warnings():
                warnings.simplefilter("ignore")
                A.fit(darsia.make_coordinate(src), darsia.make_coordinate(dst), fit_options={"tol": 1e-12, "maxiter": 5000, "isometry": iso})
            e["resexp"] = exponent(float(np.abs(A.call_array(src) - dst).max()))
            e["scaling6"] = int(round(1e6 * float(A.scaling)))
            back = np.asarray(A.inverse_array(A.call_array(src)))
            e["rtexp"] = exponent(float(np.abs(back - src).max()))
        except Exception as ex:  # noqa
            e["raised"] = 1
            e["error"] = repr(ex)[:160]
        out.append(e)
    return out


def generic_event(darsia, rng, dim, tid):
    A = SHARED.setdefault(("g", dim), darsia.AffineTransformation(dim)) if rng.random() < 0.5 else darsia.AffineTransformation(dim)
    angles = [rng.uniform(-math.pi, math.pi) for _ in range(1 if dim == 2 else 3)]
    if dim == 3 and rng.random() < 0.3:
        angles[rng.randrange(3)] = 0.0
    s = 10 ** rng.uniform(-1, 1)
    t = np.array([rng.uniform(-50, 50) for _ in range(dim)])
    A.set_parameters(translation=t, scaling=s, rotation=np.array(angles))
    pts = np.array([[rng.uniform(-10, 10) for _ in range(dim)] for _ in range(8)])
    rt = np.abs(np.asarray(A.inverse(A(pts))) - pts).max() / 10
    rt2 = np.abs(np.asarray(A(A.inverse(pts))) - pts).max() / 10
    R = np.asarray(A.rotation)
    return {"tid": tid, "op": "affine_generic", "dim": dim, "rtexp": exponent(rt), "rt2exp": exponent(rt2),
            "orthoexp": exponent(np.abs(R @ R.T - np.eye(dim)).max()), "detexp": exponent(abs(np.linalg.det(R) - 1)),
            "angles6": [int(round(1e6 * a)) for a in angles]}


def rotcorr_event(darsia, rng, dim, tid):
    """RotationCorrection built from basic rotations: its stored rotation and inverse rotation are orthonormal with determinant
    one and inverse to each other, for any number of basic rotations about the Cartesian axes (3-D) / one angle (2-D)."""
    if dim == 2:
        rots = [rng.uniform(-math.pi, math.pi)]
    else:
        rots = [(rng.uniform(-math.pi, math.pi), rng.choice("xyz")) for _ in range(rng.randint(1, 3))]
    rc = darsia.RotationCorrection(anchor=[rng.randint(0, 3) for _ in range(dim)], rotations=rots)
    R, Ri = np.asarray(rc.rotation, dtype=float), np.asarray(rc.rotation_inv, dtype=float)
    return {"tid": tid, "op": "affine_generic", "dim": dim, "rtexp": exponent(float(np.abs(Ri @ R - np.eye(dim)).max())), "rt2exp": exponent(float(np.abs(R @ Ri - np.eye(dim)).max())),
            "orthoexp": exponent(float(np.abs(R @ R.T - np.eye(dim)).max())), "detexp": exponent(abs(float(np.linalg.det(R)) - 1)),
            "angles6": [int(round(1e6 * (r if dim == 2 else r[0]))) for r in rots], "cls": "RotationCorrection"}


def rot_matrix(dim, ks):
    """Integer rotation matrix as AffineTransformation composes it (Rx Ry Rz); 2-D: Rot(k)."""
    def c(k): return [1, 0, -1, 0][k % 4]
    def s(k): return [0, 1, 0, -1][k % 4]
    if dim == 2:
        k = ks[0]
        return np.array([[c(k), -s(k)], [s(k), c(k)]])
    k1, k2, k3 = ks
    Rx = np.array([[1, 0, 0], [0, c(k1), -s(k1)], [0, s(k1), c(k1)]])
    Ry = np.array([[c(k2), 0, s(k2)], [0, 1, 0], [-s(k2), 0, c(k2)]])
    Rz = np.array([[c(k3), -s(k3), 0], [s(k3), c(k3), 0], [0, 0, 1]])
    return Rx @ Ry @ Rz


WPATTERN = [-1]
XMAG = [-1]


XIDENT = [0]
XCAND = [0]


def warp_event(darsia, rng, dim, sshape, ks, shift, typed, payload, tid, dshape_mode):
    """Index map w = P v + t realised as an AffineTransformation typed in voxels / voxel centres / coordinates."""
    P = rot_matrix(dim, ks)
    sshape = tuple(sshape)
    corners = np.array(list(itertools.product(*[[0, s - 1] for s in sshape])))
    img_c = corners @ P.T
    t0 = -img_c.min(axis=0)
    rshape = tuple(int(x) for x in (img_c.max(axis=0) - img_c.min(axis=0) + 1))
    t = (t0 + np.array(shift)).astype(int)
    dshape = rshape if dshape_mode == "fit" else tuple(max(1, r + d) for r, d in zip(rshape, dshape_mode))
    trailing = {"scalar": (), "vector": (2,), "series": (3,)}[payload]
    hs = [rng.choice([1.0, 0.5, 0.25]) for _ in range(dim)]
    hd_of = lambda: [rng.choice([1.0, 0.5, 0.25]) for _ in range(dim)]

    WPATTERN[0] += 1
    pattern = WPATTERN[0] % 4

    def image(shape, h, fill=None, origin=None):
        full = tuple(shape) + trailing
        arr = (np.arange(1, int(np.prod(full)) + 1, dtype=float).reshape(full)) if fill is None else np.full(full, fill, dtype=float)
        if fill is None:
            # the values the image carries, by turns: all distinct; compact support (exact zeros around a few voxels); voxels
            # in which some but not all components / time steps vanish (pure colours, masks); few distinct values with ties
            flat = arr.reshape(-1)
            k_ = np.arange(flat.size)
            if pattern == 1:
                flat[k_ % 5 != 0] = 0.0
            elif pattern == 2:
                flat[(k_ + k_ // max(1, int(np.prod(trailing)) if trailing else 1)) % 2 == 0] = 0.0
            elif pattern == 3:
                flat[:] = 1.0 + (k_ // 3) % 2
        kw = dict(space_dim=dim, dimensions=[h[a] * shape[a] for a in range(dim)], scalar=(payload in ("scalar", "series")))
        if payload == "series":
            kw.update(series=True, time=[0.0, 1.0, 2.0])
        if origin is not None:
            kw["origin"] = origin
        return darsia.Image(arr, **kw)

    A = darsia.AffineTransformation(dim)
    angles = np.array([k * math.pi / 2 for k in ks])
    if typed == "V":
        src, dst = image(sshape, hs), image(dshape, hd_of(), 0.0)
        A.set_dtype(darsia.make_voxel([[0] * dim]), darsia.make_voxel([[0] * dim]))
        A.set_parameters(translation=t.astype(float), scaling=1.0, rotation=angles)
    elif typed == "C":
        src, dst = image(sshape, hs), image(dshape, hd_of(), 0.0)
        A.set_dtype(darsia.make_voxel_center([[0] * dim]), darsia.make_voxel_center([[0] * dim]))
        half = np.full(dim, 0.5)
        A.set_parameters(translation=t + half - P @ half, scaling=1.0, rotation=angles)
    else:
        # physical coordinates: equal isotropic voxel size h in both systems; voxel centre v+1/2 sits at o + h*S(v+1/2)
        def physical(h, origin, src_origin=None):
            src = image(sshape, [h] * dim, origin=src_origin)
            dst = image(dshape, [h] * dim, 0.0, origin=origin)
            # x = o + h * (v + 1/2) @ Mperm  (Cartesian from matrix position), taken from the images' own coordinate systems
            def frame(im):
                cs = im.coordinatesystem
                o = np.asarray(cs.coordinate([0] * dim), dtype=float)
                M = np.array([np.asarray(cs.coordinate(list(np.eye(dim, dtype=int)[m])), dtype=float) - o for m in range(dim)]).T
                return o, M          # x = o + M p, p matrix position in voxels (columns of M include h and orientation)
            os_, Ms = frame(src)
            od, Md = frame(dst)
            # matrix-space map p_dst = P p_src + t (+1/2 bookkeeping cancels for centres): x_dst = od + Md (P Ms^-1 (x - os) + t + (1/2 - P 1/2))
            Rphys = Md @ P @ np.linalg.inv(Ms)
            tphys = od + Md @ (t + 0.5 - P @ np.full(dim, 0.5)) - Rphys @ os_
            A_ = darsia.AffineTransformation(dim)
            A_.set_dtype(darsia.make_coordinate([[0.0] * dim]), darsia.make_coordinate([[0.0] * dim]))
            A_.translation = tphys
            A_.scaling = 1.0
            A_.rotation = Rphys
            A_.rotation_inv = Rphys.T
            return src, dst, A_

        h = rng.choice([1.0, 0.5, 0.1])
        # (magnitudes in turn: ordinary; both frames a million voxel sizes away from zero (and coinciding when the shapes agree);
        # sub-nanometre voxels - powers of two keep the positions exact)
        ident_ok = all(k == 0 for k in ks) and tuple(dshape) == tuple(sshape) and any(int(x) != 0 for x in t)
        XCAND[0] += int(ident_ok)
        if ident_ok and XCAND[0] % 2 == 1:
            # the index shift realised by the IDENTITY map in physical coordinates between two canvases of one shape and voxel
            # size that sit elsewhere (the destination placed so that the physical translation vanishes exactly)
            XIDENT[0] += 1
            h = rng.choice([1.0, 0.5, 0.25])
            so = [rng.choice([0.0, 3.0, -2.5]) for _ in range(dim)]
            cs0 = image(sshape, [h] * dim, origin=so).coordinatesystem
            o0 = np.asarray(cs0.coordinate([0] * dim), dtype=float)
            M0 = np.array([np.asarray(cs0.coordinate(list(np.eye(dim, dtype=int)[m])), dtype=float) - o0 for m in range(dim)]).T
            src, dst, A = physical(h, [float(x) for x in (np.asarray(so) - M0 @ np.asarray(t, dtype=float))], src_origin=so)
            if not (np.array_equal(np.asarray(A.rotation), np.eye(dim)) and not np.any(np.asarray(A.translation))):
                raise MachineryError("the physical map constructed as the identity is not the identity")
        elif XMAG.__setitem__(0, XMAG[0] + 1) or XMAG[0] % 3 == 1:  # (advances the magnitude counter, then takes its turn)
            h = rng.choice([1.0, 0.5])
            far = [1e6 * h * (1 + a_) for a_ in range(dim)]
            src, dst, A = physical(h, list(far), src_origin=list(far))
        elif XMAG[0] % 3 == 2:
            h = rng.choice([1.0, 0.5]) * 2.0 ** -30
            near = [3 * h for _ in range(dim)]
            src, dst, A = physical(h, list(near), src_origin=list(near))
        else:
            src, dst, A = physical(h, [rng.choice([0.0, 3.0, -2.5]) for _ in range(dim)])
    e = {"tid": tid, "op": "warp", "dim": dim, "typed": typed, "payload": payload, "sshape": list(sshape), "dshape": list(dshape), "trailing": list(trailing),
         "P": P.astype(int).tolist(), "t": [int(x) for x in t], "k": list(ks), "raised": 0, "res": [], "second": "same",
         "data": [int(x) for x in np.asarray(src.img).ravel()], "pattern": pattern}
    try:
        with warnings.catch_warnings():
            warnings.simplefilter("ignore")
            corr = darsia.TransformationCorrection(src.coordinatesystem, dst.coordinatesystem, A)
            before = src.img.copy()
            out = corr(src)
            e["res"] = [int(x) for x in np.asarray(out.img).ravel()]
            # per-object cache: a second application with another payload must move the same voxels
            src2 = src.copy()
            src2.img = src.img * 2.0
            out2 = corr(src2)
            if not np.array_equal(out2.img, 2.0 * out.img) or not np.array_equal(before, src.img):
                e["second"] = "different"
            if typed == "X":
                # a second correction object for the SAME index map between images of the same shapes that sit elsewhere and have
                # another voxel size, used alternately with the first one: both move the same voxels
                src_b, dst_b, A_b = physical(h * 2.5, [rng.choice([1.0, -7.0, 4.5]) for _ in range(dim)])
                corr_b = darsia.TransformationCorrection(src_b.coordinatesystem, dst_b.coordinatesystem, A_b)
                out_b = corr_b(src_b)
                out_a = corr(src)
                if not np.array_equal(out_b.img, out.img) or not np.array_equal(out_a.img, out.img):
                    e["second"] = "different"
    except Exception as ex:  # noqa
        e["raised"] = 1
        e["error"] = repr(ex)[:200]
    return e


def ctmeta_event(darsia, rng, tid):
    """CoordinateTransformation labels the result with the destination coordinate system."""
    n1, n2 = rng.randint(3, 5), rng.randint(3, 5)
    src = darsia.Image(np.arange(float(n1 * n2)).reshape(n1, n2), space_dim=2, dimensions=[1.0 * n1, 1.0 * n2], scalar=True)
    m1, m2 = rng.randint(3, 6), rng.randint(3, 6)
    dst = darsia.Image(np.zeros((m1, m2)), space_dim=2, dimensions=[0.5 * m1, 0.5 * m2], origin=[rng.choice([1.0, -2.0]), rng.choice([7.0, 0.5])], scalar=True)
    pts = darsia.make_voxel([[0, 0], [n1, 0], [0, n2], [n1, n2]])
    e = {"tid": tid, "op": "ctmeta"}
    with warnings.catch_warnings():
        warnings.simplefilter("ignore")
        import io, contextlib
        with contextlib.redirect_stdout(io.StringIO()):
            ct = darsia.CoordinateTransformation(src.coordinatesystem, dst.coordinatesystem, pts, pts, fit_options={"tol": 1e-6})
            out = ct(src)
            # the same transformation object serves a second image that is named, timed and dated differently: what does not
            # concern the frame (name, time, date, reference date, kind of image) is the image's own, every time
            import datetime
            d0 = datetime.datetime(2024, 5, 1, 10, 0, 0)
            src2 = darsia.Image(2.0 * np.arange(float(n1 * n2)).reshape(n1, n2), space_dim=2, dimensions=[1.0 * n1, 1.0 * n2], scalar=True,
                                name="second", date=d0 + datetime.timedelta(hours=2), reference_date=d0)
            src1 = darsia.Image(np.arange(float(n1 * n2)).reshape(n1, n2), space_dim=2, dimensions=[1.0 * n1, 1.0 * n2], scalar=True,
                                name="first", date=d0 + datetime.timedelta(seconds=10), reference_date=d0 - datetime.timedelta(days=1))
            outs = [ct(src1), ct(src2), ct(src1)]
    q = lambda v: [int(round(1e6 * float(x))) for x in v]
    e.update(origin=q(out.origin), dorigin=q(dst.origin), dims=q(out.dimensions), ddims=q(dst.dimensions), shape=list(out.img.shape[:2]), dshape=[m1, m2])
    keep = 1
    for o_, s_ in zip(outs, [src1, src2, src1]):
        keep &= int(o_.name == s_.name and o_.date == s_.date and o_.reference_date == s_.reference_date and o_.time == s_.time
                    and bool(o_.scalar) == bool(s_.scalar) and bool(o_.series) == bool(s_.series) and type(o_) is type(s_)
                    and q(o_.origin) == q(dst.origin) and q(o_.dimensions) == q(dst.dimensions))
    e["own_metadata_kept"] = keep
    return e


def run(ck, replay=None):
    ck.sany("TransformImpl", "Trace_Transform")
    r = ck.model_check("TransformImpl", "TransformImpl_fixed.cfg", workers=1)
    triples = sorted({tuple(p[1]) for p in r.printed("SCN")})
    reg = ck.tlc("TransformImpl", "TransformImpl_asbuilt.cfg", workers=1, expect_ok=False, label="regression-model")
    if "InverseIsInverse" not in reg.violated:
        raise MachineryError("TransformImpl no longer rejects the same-order inverse (vacuity guard)")
    darsia = import_darsia()
    rng = random.Random(ck.seed)
    quick = ck.tier == "quick"
    # two transformation corrections that agree in everything a shared voxel map could be keyed by (shapes of source and
    # destination; for "same-frames" also their placement) and differ in the transformation / the placement, constructed and
    # applied along every interleaving of spec/TwoObjects.tla: each moves the voxels ITS transformation prescribes
    from lib import twoobj
    thists = twoobj.histories(ck)
    tspecs = []
    for kind in ("same-frames-voxelcentre", "same-frames-coordinate", "other-placement-coordinate"):
        def make(o, kind=kind):
            hh = 0.5 if (o == "a" or kind.startswith("same")) else 1.25
            org = [0.0, 0.0] if (o == "a" or kind.startswith("same")) else [3.0, -2.0]
            src = darsia.Image(np.arange(1.0, 21.0).reshape(4, 5), space_dim=2, dimensions=[4 * hh, 5 * hh], scalar=True)
            dst = darsia.Image(np.zeros((4, 5)), space_dim=2, dimensions=[4 * hh, 5 * hh], origin=org, scalar=True)
            t = np.array([1.0, 0.0]) if o == "a" else np.array([0.0, 2.0])       # whole voxels (rows, columns)
            A = darsia.AffineTransformation(2)
            if kind.endswith("voxelcentre"):
                A.set_dtype(darsia.make_voxel_center([[0, 0]]), darsia.make_voxel_center([[0, 0]]))
                A.set_parameters(translation=t, scaling=1.0, rotation=np.array([0.0]))
            else:
                cs_s, cs_d = src.coordinatesystem, dst.coordinatesystem
                x0 = np.asarray(cs_s.coordinate(darsia.make_voxel_center([[0, 0]])[0] if False else [0, 0]), dtype=float)
                x1 = np.asarray(cs_d.coordinate([int(t[0]), int(t[1])]), dtype=float)
                A.set_dtype(darsia.make_coordinate([[0.0, 0.0]]), darsia.make_coordinate([[0.0, 0.0]]))
                A.set_parameters(translation=x1 - x0, scaling=1.0, rotation=np.array([0.0]))
            with warnings.catch_warnings():
                warnings.simplefilter("ignore")
                return (src, darsia.TransformationCorrection(src.coordinatesystem, dst.coordinatesystem, A))

        def use(o, obj):
            src, corr = obj
            with warnings.catch_warnings():
                warnings.simplefilter("ignore")
                return np.asarray(corr(src).img, dtype=float)

        sel = thists if not quick else [h for h in thists if len(h) <= 4]
        tspecs.append((sel, "transformation-" + kind, make, use, lambda x, y: x.shape == y.shape and np.allclose(x, y, rtol=1e-9, atol=1e-9), "twin:" + kind))
    ck.cov["twin_object_histories"] = twoobj.run(ck, "C09", tspecs)
    # one transformation correction applied again after calls it rejected (spec/FailedCalls.tla): it still moves the voxels
    # its transformation prescribes
    from lib import failedcalls
    fhists = failedcalls.histories(ck)
    fspecs = []
    for (_, kind, make, use, same, tid) in list(tspecs):
        bads = [lambda: None, lambda: "not an image", lambda: np.zeros((4, 5)),
                lambda: darsia.Image(np.zeros((3, 4, 5)), space_dim=3, dimensions=[1.0, 1.0, 1.0], scalar=True)]
        for bi, bad in enumerate(bads):
            def fmisuse(obj, bad=bad):
                with warnings.catch_warnings():
                    warnings.simplefilter("ignore")
                    return obj[1](bad())
            fspecs.append((fhists, f"{kind}-bad{bi}", lambda make=make: make("a"), lambda obj, use=use: use("a", obj), fmisuse, same, f"failed:{kind}:{bi}"))
    ck.cov["failed_call_histories"] = failedcalls.run(ck, "C09", fspecs)
    events = []
    if replay:
        for c in json.load(open(replay))["cases"]:
            if c.get("op") == "warp":
                events.append(warp_event(darsia, rng, c["dim"], c["sshape"], c["k"], c["shift"], c["typed"], c["payload"], "replay", c["dmode"]))
            elif c.get("op") == "affine":
                events.append(affine_event(darsia, rng, c["dim"], c["k"], "replay"))
    else:
        for k in range(4):
            for rep in range(3):
                events.append(affine_event(darsia, rng, 2, (k,), f"affine2:{k}:{rep}"))
        for ks in triples:
            events.append(affine_event(darsia, rng, 3, ks, "affine3:" + "".join(map(str, ks))))
        # typed calls: every (source kind, destination kind) pair on rotation-free maps with unit scaling, in 2-D and 3-D
        for j_ in range(9):
            events.append(affine_event(darsia, rng, 2, (0,), f"affine2:typed:{j_}", unit=True))
            events.append(affine_event(darsia, rng, 3, (0, 0, 0), f"affine3:typed:{j_}", unit=True))
        for i in range(20 if quick else 300):
            events.append(generic_event(darsia, rng, rng.choice([2, 3]), f"generic:{i}"))
        for i in range(2 if quick else 20):
            for dim in (2, 3):
                events += fit_events(darsia, rng, dim, f"fit{dim}:{i}")
        for i in range(10 if quick else 100):
            events.append(rotcorr_event(darsia, rng, rng.choice([2, 3, 3]), f"rotcorr:{i}"))
        # warps: identity, whole-voxel shifts (also larger than the image), quarter turns; three typings
        nw = 60 if quick else 1500
        for i in range(nw):
            dim = rng.choice([2, 2, 3])
            sshape = [rng.randint(1, 4) for _ in range(dim)] if dim == 2 else [rng.randint(1, 3) for _ in range(dim)]
            kind = rng.choice(["identity", "shift", "bigshift", "turn", "turnshift"])
            ks = (0,) * (1 if dim == 2 else 3)
            shift = [0] * dim
            if kind in ("shift", "turnshift"):
                shift = [rng.randint(-2, 2) for _ in range(dim)]
            if kind == "bigshift":
                shift = [rng.choice([-6, -5, 5, 6, 0]) for _ in range(dim)]
            if kind in ("turn", "turnshift"):
                ks = (rng.randint(1, 3),) if dim == 2 else tuple(rng.choice([0, 0, 1, 2, 3]) for _ in range(3))
            dmode = rng.choice(["fit", "fit", [rng.randint(-1, 2) for _ in range(dim)]])
            typed = rng.choice(["V", "C", "X"])
            payload = rng.choice(["scalar", "scalar", "vector", "series"])
            ev = warp_event(darsia, rng, dim, sshape, ks, shift, typed, payload, f"warp:{i}", dmode)
            ev["case"] = {"op": "warp", "dim": dim, "sshape": sshape, "k": list(ks), "shift": shift, "typed": typed, "payload": payload, "dmode": dmode, "kind": kind}
            events.append(ev)
        # index shifts realised by the identity map in physical coordinates (displaced canvases), in every dimension and payload
        # kind in turn (the branch of warp_event takes every other candidate)
        j = 0
        for dim in (2, 3):
            for shift in ([1, 0, 0][:dim], [-1, 2, 0][:dim], [0, -1, 1][:dim], [2, 1, -1][:dim]):
                for _ in range(2):
                    payload = ["scalar", "vector", "series"][j % 3]
                    sshape = [4, 5, 3][:dim]
                    ev = warp_event(darsia, rng, dim, sshape, (0,) if dim == 2 else (0, 0, 0), shift, "X", payload, f"warp:ident:{j}", "fit")
                    ev["case"] = {"op": "warp", "dim": dim, "sshape": sshape, "k": [0] * (1 if dim == 2 else 3), "shift": shift, "typed": "X", "payload": payload, "dmode": "fit", "kind": "shift"}
                    events.append(ev)
                    j += 1
        for i in range(3 if quick else 20):
            events.append(ctmeta_event(darsia, rng, f"ctmeta:{i}"))
    cases = {e["tid"]: e.pop("case", None) for e in events}
    bad = ck.validate("Trace_Transform", "Trace.cfg", events, weight=lambda e: 5 + len(e.get("res", [])), budget=20000)
    for b in bad:
        e = b["event"]
        if e["op"] == "warp":
            c = cases.get(b["tid"]) or {}
            neg = "neg-src" if any(x != 0 for x in c.get("shift", [0])) or any(c.get("k", [0])) else "plain"
            sig = f"C09:{b['clause']}:warp:{e['typed']}:{c.get('kind','?')}:{e['dim']}d"
            ck.violation(sig, f"TransformationCorrection ({e['typed']}-typed, {c.get('kind')}) violates {b['clause']}", c or {"tid": b["tid"]})
        else:
            nz = sum(1 for k in e.get("k", []) if k % 4) if e["op"] == "affine" else 0
            sig = f"C09:{b['clause']}:{e['op']}:{e.get('dim')}d" + (f":{nz}angles" if e["op"] == "affine" else "")
            ck.violation(sig, f"{e['op']} violates {b['clause']}", {k: v for k, v in e.items() if k in ("op", "dim", "k", "sn", "sd", "t", "R", "Rinv", "angles6")})
    ck.cov["identity_physical_maps"] = XIDENT[0]
    if XIDENT[0] == 0 and not replay:
        raise MachineryError("no warp realised by the identity map in physical coordinates was driven")
    ck.cov["evaluations"] = len(events)
    ck.cov["distinct_nontrivial"] = len({(e["op"], e.get("dim"), tuple(e.get("k", [])), e.get("typed"), tuple(e.get("sshape", [])), tuple(e.get("t", []))) for e in events if any(e.get("k", [1]))})
    ck.cov["rule"] = "all 4 (2-D) and 64 (3-D, from TLC) quarter-turn angle tuples with seeded translations/scalings; seeded generic angles; warps (identity, shifts incl. larger than the image, quarter turns, three typings, three payload kinds, differing destination shapes/voxel sizes); non-trivial = at least one non-zero angle or shift"
    ck.cov["samples"] = [{k: v for k, v in events[5].items()}, cases.get("warp:0")]
    ck.assumptions += ["quarter turns are realised with floating angles k*pi/2; results are rounded to integers after a 1e-9 test",
                       "the index map of a warp (w = P v + t) is chosen by the harness and realised per typing; expected destination tags are computed by TLC"]
