"""C15 — every quadrature rule is exact to its nominal degree."""
import itertools
import math

import numpy as np

from lib.core import import_darsia

LEVEL = "model_checking"
S = 10000


def exponent(err):
    return 3 if not math.isfinite(err) else int(max(-17, min(3, math.ceil(math.log10(max(err, 1e-17))))))


def rule_event(q, dim, order, cell, tid):
    f = q.gauss if cell == "sym" else q.gauss_reference_cell
    try:
        pts, w = f(dim, order)
    except NotImplementedError:
        return {"op": "rejected", "tid": tid, "dim": dim, "order": str(order), "cell": cell}
    raw_pts, raw_w = pts, w
    pts = np.array(pts, dtype=float).reshape(len(pts), -1)
    w = np.array(w, dtype=float).ravel()
    # a caller may scale / shift what it got in place (mapping the rule to its own cell): later requests must not see that
    for arr_ in (raw_pts, raw_w):
        if isinstance(arr_, np.ndarray) and arr_.flags.writeable:
            arr_[...] = 0
    n = order + 1 if isinstance(order, int) else int(round(len(pts) ** (1.0 / dim)))
    mom = []
    if len(w) == len(pts):
        for k in itertools.product(range(2 * n), repeat=dim):
            val = float(np.sum(w * np.prod(pts ** np.array(k), axis=1)))
            if cell == "sym":
                exact = np.prod([0.0 if ki % 2 else 2.0 / (ki + 1) for ki in k])
            else:
                exact = np.prod([1.0 / (ki + 1) for ki in k])
            mom.append(list(k) + [exponent(abs(val - exact))])
    return {"op": "rule", "tid": tid, "dim": dim, "n": n, "order": str(order), "cell": cell,
            "pts": np.round(pts * S).astype(int).tolist(), "w": np.round(w * S).astype(int).tolist(), "mom": mom}


def corner_event(q, dim, tid):
    pts, w = q.reference_cell_corners(dim)
    pts = np.asarray(pts, dtype=float)
    wi = np.asarray(w, dtype=float) * 2 ** dim
    ok = np.allclose(pts, np.round(pts), atol=1e-14) and np.allclose(wi, np.round(wi), atol=1e-12)
    return {"op": "corners", "tid": tid, "dim": dim,
            "pts": np.round(pts).astype(int).tolist() if ok else [[-1] * dim],
            "wi": np.round(wi).astype(int).tolist() if ok else [0]}


def run(ck, replay=None):
    ck.sany("MC_Quadrature", "Trace_Quadrature")
    r = ck.model_check("MC_Quadrature", "MC_Quadrature.cfg", workers=4)
    scn = sorted({(p[1], p[2], p[3]) for p in r.printed("SCN")})
    darsia = import_darsia()
    q = darsia.quadrature
    # the two families of tables (symmetric cell, unit cell) requested under one (dimension, order) key along every
    # interleaving of spec/TwoObjects.tla ("make" = first request, "use" = a later request): each returns ITS rule
    from lib import twoobj
    thists = twoobj.histories(ck)
    tspecs = []
    for (d_, n_) in ((1, 0), (2, 1), (3, 2), (2, "max")):
        def make(o, d_=d_, n_=n_):
            f = q.gauss if o == "a" else q.gauss_reference_cell
            f(d_, n_)
            return f

        def use(o, f, d_=d_, n_=n_):
            pts, w = f(d_, n_)
            return [np.array(pts, dtype=float).reshape(len(np.atleast_1d(w)), -1), np.array(w, dtype=float).ravel()]

        tspecs.append((thists, f"gauss-{d_}d-order{n_}", make, use,
                       lambda x, y: all(p_.shape == q_.shape and np.allclose(p_, q_, rtol=1e-13, atol=1e-15) for p_, q_ in zip(x, y)), f"twin:{d_}:{n_}"))
    ck.cov["twin_object_histories"] = twoobj.run(ck, "C15", tspecs)
    events = []
    # the tables must not depend on which reference element was requested first, or how often:
    # every rule is requested in the order unit -> sym -> unit -> sym within one process
    for (d, n, cell) in sorted(scn, key=lambda t: (t[0], t[1], t[2] != "unit")):
        events.append(rule_event(q, d, n - 1, cell, f"gauss:{d}d:order{n-1}:{cell}"))
    for (d, n, cell) in sorted(scn, key=lambda t: (t[0], t[1], t[2] != "unit")):
        events.append(rule_event(q, d, n - 1, cell, f"gauss-again:{d}d:order{n-1}:{cell}"))
    for d in (1, 2, 3):
        for cell in ("unit", "sym", "unit", "sym"):
            events.append(rule_event(q, d, "max", cell, f"gauss:{d}d:max:{cell}:{len(events)}"))
            events.append(rule_event(q, d, 5, cell, f"gauss:{d}d:order5:{cell}"))
        events.append(corner_event(q, d, f"corners:{d}d"))
    if all(e["op"] == "rejected" for e in events if ":max:sym" in e["tid"]):
        raise RuntimeError("no rule accepted")
    bad = ck.validate("Trace_Quadrature", "Trace.cfg", events)
    for b in bad:
        e = b["event"]
        sig = f"C15:{b['clause']}:{e['op']}:{e['dim']}d:" + (f"order{e['order']}:{e['cell']}" if e["op"] in ("rule", "rejected") else "corner")
        ck.violation(sig, f"quadrature rule dim={e['dim']} order={e.get('order')} cell={e.get('cell')} violates {b['clause']}",
                     {"dim": e["dim"], "order": e.get("order"), "cell": e.get("cell"), "npts": len(e.get("pts", [])), "nw": len(e.get("w", e.get("wi", [])))})
    acc = [e for e in events if e["op"] != "rejected"]
    ck.cov["evaluations"] = len(events)
    ck.cov["distinct_nontrivial"] = len(acc)
    ck.cov["rule"] = "every (dim, order, cell) of the API range incl. 'max' and one order beyond; non-trivial = accepted by the API (not NotImplementedError)"
    ck.cov["exhaustive"] = True
    ck.cov["monomials_checked"] = sum(len(e.get("mom", [])) for e in acc)
    ck.cov["samples"] = [{k: (v if k != "mom" else v[:4]) for k, v in events[3].items()}]
    ck.assumptions += ["fixed-point scale 1e4, tolerance 1e-2 inside TLC (gross table errors); 1e-12 exactness via double-precision moments computed by the harness (E4) and related by the spec"]
