"""C01 — voxel and physical coordinates convert consistently."""
import itertools
import json
import random

import numpy as np

from lib.core import import_darsia
from checks.common import gammas, build_image, to_lattice, from_lattice

LEVEL = "model_checking"


def probes(shape, halo):
    rngs = [range(-halo, s + halo) for s in shape]
    return np.array(list(itertools.product(*rngs)), dtype=int)


def events_for(darsia, rng, shape, table, h, omode, kind, halo, tid, sample_single, cap):
    n = len(shape)
    # the image classes share one geometry: plain Image, or the scalar / optical subclass fitting the payload (2-D optical only)
    cls = rng.choice([None, darsia.ScalarImage]) if kind in ("scalar", "series") else (rng.choice([None, darsia.OpticalImage]) if n == 2 else None)
    img, o, _ = build_image(darsia, rng, shape, h, omode, kind, table, cls=cls)
    cs = img.coordinatesystem
    # a second image of the same shape with other voxel sizes and origin gets its coordinate system while the first one is in
    # use: each coordinate system keeps describing ITS image (both are used from here on)
    h_other = [x * f for x, f in zip(h, [3.5, 0.25, 7.0][:n])]
    img_other, o_other, _ = build_image(darsia, rng, shape, h_other, "user", "scalar", table)
    cs_other = img_other.coordinatesystem
    ev = []
    base = {"n": n, "shape": list(shape)}
    V = probes(shape, halo)

    def lat(x):
        return to_lattice(x, o, table, h)

    # corners, voxel size, unit steps
    zero = [0] * n
    steps = []
    for m in range(n):
        e = [0] * n
        e[m] = 1
        d = np.asarray(cs.coordinate(e)) - np.asarray(cs.coordinate(zero))
        dl = to_lattice(d, np.zeros(n), table, h)[0]
        nz = [i for i, x in enumerate(dl) if x != 0]
        steps.append([nz[0], dl[nz[0]] // 4 if abs(dl[nz[0]]) == 4 else 77] if len(nz) == 1 else [-1, 0])
    vs = [int(round(1e6 * img.voxel_size[m] / h[m])) for m in range(n)]
    ev.append(dict(base, tid=tid, op="corners", origin=lat(img.origin)[0],
                   opposite=lat(img.opposite_corner)[0], vsize=vs, steps=steps,
                   origin0=lat(cs.coordinate(zero))[0]))
    if ev[-1]["origin0"] != ev[-1]["origin"]:
        ev[-1]["origin"] = [99999999] * n
    # coordinate(): batch raw array, list, typed arrays
    P4 = (4 * V).tolist()
    ev.append(dict(base, tid=tid, op="coordinate", form="batch-array", pts=P4, res=lat(cs.coordinate(V))))
    ev.append(dict(base, tid=tid, op="coordinate", form="batch-list", pts=P4, res=lat(cs.coordinate(V.tolist()))))
    va = darsia.make_voxel(V)
    ev.append(dict(base, tid=tid, op="conv", **{"from": "V", "to": "X"}, form="batch", pts=P4, res=lat(va.to_coordinate(cs))))
    ca = darsia.make_voxel_center(V)
    C4 = (4 * V + 2).tolist()
    ev.append(dict(base, tid=tid, op="conv", **{"from": "C", "to": "X"}, form="batch", pts=C4, res=lat(ca.to_coordinate(cs))))
    ev.append(dict(base, tid=tid, op="conv", **{"from": "C", "to": "V"}, form="batch", pts=C4,
                   res=(4 * np.asarray(ca.to_voxel())).astype(int).tolist()))
    ev.append(dict(base, tid=tid, op="conv", **{"from": "V", "to": "C"}, form="batch", pts=P4,
                   res=np.round(4 * np.asarray(va.to_voxel_center(), dtype=float)).astype(int).tolist()))
    ev.append(dict(base, tid=tid, op="conv", **{"from": "V", "to": "V"}, form="batch", pts=P4,
                   res=(4 * np.asarray(va.to_voxel(cs))).astype(int).tolist()))
    ev.append(dict(base, tid=tid, op="conv", **{"from": "C", "to": "C"}, form="batch", pts=C4,
                   res=np.round(4 * np.asarray(ca.to_voxel_center(cs), dtype=float)).astype(int).tolist()))
    # voxel(): every strictly interior quarter position of every probe voxel
    offs = np.array(list(itertools.product([1, 2, 3], repeat=n)), dtype=int)
    Pin = (4 * V[:, None, :] + offs[None, :, :]).reshape(-1, n)
    if len(Pin) > cap:
        Pin = Pin[sorted(rng.sample(range(len(Pin)), cap))]
    # lattice Cartesian points of these positions, from the specification's table
    K = np.zeros_like(Pin)
    for m in range(n):
        c, sgn = table[m]
        K[:, c - 1] = sgn * Pin[:, m]
    X = from_lattice(K, o, table, h)
    Kl = K.tolist()
    ev.append(dict(base, tid=tid, op="voxel", form="batch-array", pts=Kl, res=np.asarray(cs.voxel(X)).astype(int).tolist()))
    xa = darsia.make_coordinate(X)
    ev.append(dict(base, tid=tid, op="conv", **{"from": "X", "to": "V"}, form="batch", pts=Kl,
                   res=(4 * np.asarray(xa.to_voxel(cs))).astype(int).tolist()))
    ev.append(dict(base, tid=tid, op="conv", **{"from": "X", "to": "C"}, form="batch", pts=Kl,
                   res=np.round(4 * np.asarray(xa.to_voxel_center(cs), dtype=float)).astype(int).tolist()))
    ev.append(dict(base, tid=tid, op="conv", **{"from": "X", "to": "X"}, form="batch", pts=Kl, res=lat(xa.to_coordinate(cs))))
    # the generic dispatcher p.to(cls, cs) for all nine (from, to) pairs, single and array target classes alike, and the
    # class of what comes back (a conversion of a batch returns the array class of the target kind)
    CLS = {"V": (darsia.Voxel, darsia.VoxelArray), "C": (darsia.VoxelCenter, darsia.VoxelCenterArray), "X": (darsia.Coordinate, darsia.CoordinateArray)}

    def to4(kind, r):
        r = np.atleast_2d(np.asarray(r, dtype=float))
        return lat(r) if kind == "X" else np.round(4 * r).astype(int).tolist()

    srcs = {"V": (va, P4), "C": (ca, C4), "X": (xa, Kl)}
    for fk, (obj, pts4) in srcs.items():
        for tk in ("V", "C", "X"):
            target = CLS[tk][rng.randrange(2)]
            r = obj.to(target, cs)
            res = to4(tk, r)
            if type(r) is not CLS[tk][1]:
                res = [[99999999] * n for _ in res]         # wrong container class
            ev.append(dict(base, tid=tid, op="conv", **{"from": fk, "to": tk}, form="batch-dispatch", pts=pts4, res=res))
    # Cartesian-ordered voxel input (matrix_indexing=False: columns reversed) denotes the same voxels
    if n >= 2:
        vf = darsia.make_voxel(V[:, ::-1], matrix_indexing=False)
        ev.append(dict(base, tid=tid, op="conv", **{"from": "V", "to": "V"}, form="batch-reversed-columns", pts=P4,
                       res=(4 * np.asarray(vf)).astype(int).tolist() if type(vf) is darsia.VoxelArray else [[99999999] * n] * len(P4)))
    # the coordinate system's own enumeration of its voxels and their coordinates
    allv = np.asarray(cs.voxels)
    allx = np.asarray(cs.coordinates)
    want = set(itertools.product(*[range(k) for k in shape]))
    got = [tuple(int(t) for t in v) for v in allv]
    ev.append(dict(base, tid=tid, op="enum", count=len(got), distinct=len(set(got)), inside=int(set(got) == want),
                   coords_match=int(len(allx) == len(allv) and lat(allx) == lat(cs.coordinate(allv)) and 99999999 not in np.asarray(lat(allx)).ravel().tolist())))
    # bounding box and voxel sizes by Cartesian name
    vsn = cs.voxel_size
    ev.append(dict(base, tid=tid, op="byname", vsize=[int(round(1e6 * vsn["xyz"[c]] / h[[m for m in range(n) if table[m][0] == c + 1][0]])) for c in range(n)],
                   lengths=[int(round(1e6 * cs.length(3, "xyz"[c]) / (3 * h[[m for m in range(n) if table[m][0] == c + 1][0]]))) for c in range(n)],
                   counts=[int(cs.num_voxels(5 * h[[m for m in range(n) if table[m][0] == c + 1][0]], "xyz"[c])) for c in range(n)]))
    if n <= 2:
        dom = [float(t) for t in img.domain]
        lo = lat([dom[2 * c] for c in range(n)])[0]
        hi = lat([dom[2 * c + 1] for c in range(n)])[0]
        ev.append(dict(base, tid=tid, op="domain", lo=lo, hi=hi))
    # the geometry is changed on the SAME image object after its coordinate system has been used: origin moved by a few
    # voxels (tiny relative to a far-away origin), then reset to the default - every later conversion follows the new geometry
    regeo = []
    shift = np.zeros(n)
    for m in range(n):
        c, sgn = table[m]
        shift[c - 1] = rng.randint(1, 3) * h[m]
    o2 = np.asarray(img.origin, dtype=float) + shift
    dims_ = [h[m] * shape[m] for m in range(n)]
    odef = np.zeros(n)
    for m in range(n):
        c, sgn = table[m]
        if sgn < 0:
            odef[c - 1] = dims_[m]
    for label in ("moved", "reset", "assigned"):
        if label == "moved":
            img.update_metadata(origin=darsia.Coordinate(o2.copy()) if rng.random() < 0.5 else list(o2))
            onew = o2
        elif label == "reset":
            img.reset_origin()             # the documented default: the image occupies [0, dimension] on every Cartesian axis
            onew = odef
        else:
            img.origin = darsia.Coordinate(o2 + shift)     # plain attribute assignment, as the library itself does
            onew = o2 + shift
        cs2 = img.coordinatesystem
        lat2 = lambda x, onew=onew: to_lattice(x, onew, table, h)   # noqa: E731
        ev.append(dict(base, tid=tid, op="corners", origin=lat2(img.origin)[0], opposite=lat2(img.opposite_corner)[0], vsize=vs, steps=steps,
                       origin0=lat2(cs2.coordinate(zero))[0], after=label))
        if ev[-1]["origin0"] != ev[-1]["origin"]:
            ev[-1]["origin"] = [99999999] * n
        ev.append(dict(base, tid=tid, op="coordinate", form="batch-array:after-" + label, pts=P4, res=lat2(cs2.coordinate(V))))
        X2 = from_lattice(K, onew, table, h)
        ev.append(dict(base, tid=tid, op="voxel", form="batch-array:after-" + label, pts=Kl, res=np.asarray(cs2.voxel(X2)).astype(int).tolist()))
    P4o = (4 * V).tolist()
    ev.append(dict(base, tid=tid + ":other", op="coordinate", form="batch-array:second-system", pts=P4o, res=to_lattice(cs_other.coordinate(V), o_other, table, h_other)))
    ev.append(dict(base, tid=tid + ":other", op="conv", **{"from": "V", "to": "X"}, form="batch:second-system", pts=P4o,
                   res=to_lattice(darsia.make_voxel(V).to_coordinate(cs_other), o_other, table, h_other)))
    # single-point call forms on a sample
    for i in rng.sample(range(len(V)), min(sample_single, len(V))):
        v = V[i]
        ev.append(dict(base, tid=tid, op="coordinate", form="single-array", pts=[(4 * v).tolist()], res=lat(cs.coordinate(v))))
        ev.append(dict(base, tid=tid, op="coordinate", form="single-tuple", pts=[(4 * v).tolist()], res=lat(cs.coordinate(tuple(int(t) for t in v)))))
        vc = darsia.make_voxel_center(v)
        ev.append(dict(base, tid=tid, op="conv", **{"from": "C", "to": "V"}, form="single", pts=[(4 * v + 2).tolist()],
                       res=[(4 * np.asarray(vc.to_voxel())).astype(int).tolist()]))
        # voxel centre -> coordinate -> voxel round trip through the typed objects
        back = vc.to_coordinate(cs).to_voxel(cs)
        ev.append(dict(base, tid=tid, op="conv", **{"from": "V", "to": "V"}, form="single-roundtrip-centre",
                       pts=[(4 * v).tolist()], res=[(4 * np.asarray(back)).astype(int).tolist()]))
    # batches of exactly one point keep the batch layout and the array class of the target kind (a row is not a point)
    for i in rng.sample(range(len(Pin)), min(2, len(Pin))):
        def rows(r, cls_):
            a_ = np.asarray(r)
            return a_.astype(float) if (type(r) is cls_ and a_.shape == (1, n)) else None
        r1 = rows(cs.voxel(X[i:i + 1]), darsia.VoxelArray)
        ev.append(dict(base, tid=tid, op="voxel", form="batch-of-one", pts=[K[i].tolist()], res=r1.astype(int).tolist() if r1 is not None else [[99999999] * n]))
        r2 = rows(darsia.make_coordinate(X[i:i + 1]).to_voxel(cs), darsia.VoxelArray)
        ev.append(dict(base, tid=tid, op="voxel", form="batch-of-one-typed", pts=[K[i].tolist()], res=r2.astype(int).tolist() if r2 is not None else [[99999999] * n]))
        j = rng.randrange(len(V))
        r3 = rows(cs.coordinate(V[j:j + 1]), darsia.CoordinateArray)
        ev.append(dict(base, tid=tid, op="coordinate", form="batch-of-one", pts=[(4 * V[j]).tolist()], res=lat(r3) if r3 is not None else [[99999999] * n]))
        r4 = rows(darsia.make_coordinate(X[i:i + 1]).to_voxel_center(cs), darsia.VoxelCenterArray)
        if r4 is None:
            ev.append(dict(base, tid=tid, op="voxel", form="batch-of-one-centre-class", pts=[K[i].tolist()], res=[[99999999] * n]))
    for i in rng.sample(range(len(Pin)), min(sample_single, len(Pin))):
        ev.append(dict(base, tid=tid, op="voxel", form="single-array", pts=[K[i].tolist()], res=[np.asarray(cs.voxel(X[i])).astype(int).tolist()]))
        ev.append(dict(base, tid=tid, op="voxel", form="single-list", pts=[K[i].tolist()], res=[np.asarray(cs.voxel(X[i].tolist())).astype(int).tolist()]))
    return ev


def run(ck, replay=None):
    ck.sany("MC_Coords", "Trace_Coords")
    r = ck.model_check("MC_Coords", f"MC_Coords_{ck.tier}.cfg", workers=4 if ck.tier == "quick" else 8)
    if ck.tier == "thorough":
        # floor lemma for ALL integer voxel indices (Apalache, integer SMT); truncation toward zero must be refuted
        if ck.apalache("CoordsLemma", "Lemma"):
            ck.apalache("CoordsLemma", "TruncRoundTrip", expect_error=True)
    scn = {tuple(p[1]): [tuple(t) for t in p[2]] for p in r.printed("SCN")}
    tables = {len(s): t for s, t in scn.items()}
    if set(tables) != {1, 2, 3}:
        raise RuntimeError("scenario emission incomplete")
    darsia = import_darsia()
    rng = random.Random(ck.seed)
    quick = ck.tier == "quick"
    # coordinate systems of two images of one shape with other voxel sizes and origins, taken and used along every
    # interleaving of spec/TwoObjects.tla: each keeps converting for ITS image
    from lib import twoobj
    hists = twoobj.histories(ck)
    ntwin = 0
    tspecs = []
    for shape in ((3, 4), (2, 3, 2), (5,)):
        nd = len(shape)

        def make(o, shape=shape, nd=nd):
            f = 1.0 if o == "a" else 3.5
            img = darsia.Image(np.zeros(shape), space_dim=nd, dimensions=[f * 0.5 * (m + 1) * shape[m] for m in range(nd)],
                               origin=[(1.0 if o == "a" else -7.0) * (m + 1) for m in range(nd)], scalar=True)
            return (img, img.coordinatesystem)

        def use(o, obj, shape=shape, nd=nd):
            img, cs = obj
            V = probes(shape, 1)
            X = np.asarray(cs.coordinate(V), dtype=float)
            mid = np.asarray(cs.coordinate(V), dtype=float) + 0.25 * (np.asarray(cs.coordinate(V + 1), dtype=float) - np.asarray(cs.coordinate(V), dtype=float))
            return [X, np.asarray(cs.voxel(mid), dtype=float), np.asarray(darsia.make_voxel(V).to_coordinate(cs), dtype=float),
                    np.asarray(darsia.make_coordinate(mid).to_voxel(cs), dtype=float), np.asarray([cs.voxel_size["xyz"[c]] for c in range(nd)]),
                    np.asarray(img.opposite_corner, dtype=float), np.asarray(cs.length(2, "x")).reshape(-1)]

        def same(x, y):
            return len(x) == len(y) and all(p_.shape == q_.shape and np.allclose(p_, q_, rtol=1e-12, atol=1e-12) for p_, q_ in zip(x, y))

        sel = hists if not quick else [h for h in hists if len(h) <= 4]
        tspecs.append((sel, "coordinatesystem-" + "x".join(map(str, shape)), make, use, same, "twin:" + "x".join(map(str, shape))))
    ntwin = twoobj.run(ck, "C01", tspecs)
    ck.cov["twin_object_histories"] = ntwin
    shapes = sorted(scn)
    # beyond the TLC bound (trace spec is unbounded): bigger random shapes incl. single-voxel axes
    for _ in range(6 if quick else 30):
        n = rng.choice([1, 2, 2, 3])
        shapes.append(tuple(rng.choice([1, rng.randint(2, 9 if n < 3 else 5)]) for _ in range(n)))
    cases = []
    if replay:
        for c in json.load(open(replay))["cases"]:
            cases.append((tuple(c["shape"]), c["h"], c["omode"], c["kind"]))
    else:
        for s in shapes:
            for (h, om) in gammas(rng, len(s), 5 if quick else 14):
                cases.append((s, h, om, rng.choice(["scalar", "vector", "series", "vseries"])))
    events, info = [], {}
    for i, (s, h, om, kind) in enumerate(cases):
        tid = f"c{i}"
        info[tid] = {"shape": list(s), "h": h, "omode": om, "kind": kind}
        events += events_for(darsia, rng, s, tables[len(s)], h, om, kind, 2, tid, 3 if quick else 10, 500 if quick else 3000)
    bad = ck.validate("Trace_Coords", "Trace.cfg", events, weight=lambda e: len(e.get("pts", [0])), budget=80000)
    npts = sum(len(e.get("pts", [0])) for e in events)
    for b in bad:
        e = b["event"]
        what = b["clause"]
        sig = f"C01:{what}:{e['op']}"
        if e["op"] == "conv":
            sig += f":{e['from']}->{e['to']}"
        # classify whether only negative (out-of-range) inputs fail
        if e["op"] != "corners":
            wrong = [p for p, q in zip(e.get("pts", []), e.get("res", [])) if True]
        ck.violation(sig + f":{e['n']}d", f"{e['op']} {e.get('from','')}{'->' if e['op']=='conv' else ''}{e.get('to','')} disagrees with the lattice specification ({what})",
                     dict(info[b["tid"].split(":other")[0]], op=e["op"], form=e.get("form"), clause=what,
                          first=[(p, q) for p, q in zip(e.get("pts", []), e.get("res", []))][:3]))
    ck.cov["evaluations"] = npts
    ck.cov["distinct_nontrivial"] = len({(tuple(c[0]), tuple(c[1]), c[2]) for c in cases})
    ck.cov["rule"] = ("(shape, voxel sizes, origin mode) triples; shapes from MC_Coords plus seeded larger ones; every voxel of image+halo 2, "
                      "27 interior quarter positions each; evaluations = point conversions validated by TLC")
    ck.cov["samples"] = [info["c0"], info[f"c{len(cases)//2}"], {k: v for k, v in events[1].items() if k != "pts" and k != "res"} | {"pts": events[1]["pts"][:3], "res": events[1]["res"][:3]}]
    ck.assumptions += ["float positions are mapped to the quarter-voxel lattice with the harness' own voxel sizes; tolerance 1e-6 relative (+1e-9 of the origin offset)",
                       "axis table is the specification's (Axes.tla), emitted by TLC"]
