"""C10 — every correction honours the copy / in-place / array / series contract."""
import copy
import io
import contextlib
import json
import os
import random
import tempfile
import warnings

import numpy as np

from lib.core import import_darsia

LEVEL = "model_checking"


def digest_meta(m):
    out = {}
    for k, v in m.items():
        if isinstance(v, np.ndarray):
            out[k] = ("nd", v.tolist())
        elif isinstance(v, list):
            out[k] = ("list", [str(x) for x in v])
        else:
            out[k] = str(v)
    return out


def corrections(darsia, rng, shape, workdir):
    """(name, object, neutral, colour_only, supports_scalar) for every correction constructible without files/interaction."""
    H, W = shape
    out = []
    out.append(("type-float32", darsia.TypeCorrection(np.float32), False, False))
    out.append(("type-float64-neutral", darsia.TypeCorrection(np.float64), True, False))
    out.append(("type-uint8", darsia.TypeCorrection(np.uint8), False, False))
    out.append(("type-uint16", darsia.TypeCorrection(np.uint16), False, False))
    out.append(("rotation-zero", darsia.RotationCorrection(anchor=[H // 2, W // 2], rotations=[0.0]), True, False))
    out.append(("rotation-quarter", darsia.RotationCorrection(anchor=[0, 0], rotations=[np.pi / 2]), False, False))
    p0 = os.path.join(workdir, f"t0_{rng.randrange(10**9)}.npy")
    np.save(p0, np.array([[1, 0, 0], [0, 1, 0]], dtype=np.float32))
    out.append(("translation-zero", darsia.TranslationCorrection(p0), True, False))
    p1 = os.path.join(workdir, f"t1_{rng.randrange(10**9)}.npy")
    np.save(p1, np.array([[1, 0, 1], [0, 1, -1]], dtype=np.float32))
    out.append(("translation-shift", darsia.TranslationCorrection(p1), False, False))
    out.append(("translation-inactive", darsia.TranslationCorrection(), True, False))
    zero = {"horizontal_bulge": 0.0, "horizontal_center_offset": 0, "vertical_bulge": 0.0, "vertical_center_offset": 0}
    zs = {"horizontal_stretch": 0.0, "horizontal_center_offset": 0, "vertical_stretch": 0.0, "vertical_center_offset": 0}
    with warnings.catch_warnings():
        warnings.simplefilter("ignore")
        out.append(("curvature-zero", darsia.CurvatureCorrection(config={"bulge": dict(zero), "stretch": dict(zs)}), True, False))
        out.append(("curvature-bulge", darsia.CurvatureCorrection(config={"bulge": dict(zero, horizontal_bulge=1e-3)}), False, False))
        # reconfigured through save / load: an object that has already corrected an image adopts the stored configuration of
        # a correction that has never been applied; the reference for the result is a new object with that configuration
        from pathlib import Path
        for nm, stored, first, neutral in (("curvature-zero-loaded", {"bulge": dict(zero), "stretch": dict(zs)}, {"bulge": dict(zero, horizontal_bulge=2e-3)}, True),
                                           ("curvature-bulge-loaded", {"bulge": dict(zero, horizontal_bulge=1e-3)}, {"bulge": dict(zero, vertical_bulge=2e-3)}, False)):
            pz = Path(workdir) / f"cc_{rng.randrange(10**9)}.npz"
            with contextlib.redirect_stdout(io.StringIO()):
                darsia.CurvatureCorrection(config=copy.deepcopy(stored)).save(pz)
                used = darsia.CurvatureCorrection(config=copy.deepcopy(first))
                used.correct_array(np.random.RandomState(2).rand(H, W, 3))
                used.load(pz)
            used._verif_ref = darsia.CurvatureCorrection(config=copy.deepcopy(stored))
            out.append((nm, used, neutral, False))
    base = np.random.RandomState(1).rand(H, W, 3)
    out.append(("drift-inactive", darsia.DriftCorrection(base, config={"active": False}), True, False))
    try:
        out.append(("colour-inactive", darsia.ColorCorrection(config={"active": False, "roi": [[0, 0], [H - 1, 0], [H - 1, W - 1], [0, W - 1]]}), True, True))
    except Exception:
        pass
    ic = darsia.IlluminationCorrection()
    ic.colorspace = "rgb-scalar"
    ic.local_scaling = [darsia.ScalarImage(np.ones((H, W)), dimensions=[1.0, 1.0])]
    out.append(("illumination-unit", ic, True, True))
    ic2 = darsia.IlluminationCorrection()
    ic2.colorspace = "rgb"
    ic2.local_scaling = [darsia.ScalarImage(np.full((H, W), 0.5 + 0.5 * i), dimensions=[1.0, 1.0]) for i in range(3)]
    out.append(("illumination-rgb", ic2, False, True))
    # identity transformation correction (see C09 for non-trivial maps)
    im = darsia.Image(np.zeros((H, W)), space_dim=2, dimensions=[1.0, 1.0], scalar=True)
    A = darsia.AffineTransformation(2)
    A.set_dtype(darsia.make_voxel_center([[0, 0]]), darsia.make_voxel_center([[0, 0]]))
    # a translating correction between the SAME two coordinate systems comes first: the neutral one that follows is a
    # different object with a different transformation (each correction object applies its own map)
    A1 = darsia.AffineTransformation(2)
    A1.set_dtype(darsia.make_voxel_center([[0, 0]]), darsia.make_voxel_center([[0, 0]]))
    A1.set_parameters(translation=np.array([1.0, -1.0]), scaling=1.0, rotation=np.array([0.0]))
    out.append(("transformation-shift", darsia.TransformationCorrection(im.coordinatesystem, im.coordinatesystem, A1), False, False))
    out.append(("transformation-identity", darsia.TransformationCorrection(im.coordinatesystem, im.coordinatesystem, A), True, False))
    # a correction that DECLARES metadata updates (dimensions and origin of the destination frame) and changes the array shape
    src = darsia.Image(np.zeros((H, W)), space_dim=2, dimensions=[0.5 * H, 0.25 * W], origin=[1.0, 2.0], scalar=True)
    dst = darsia.Image(np.zeros((H + 1, W + 2)), space_dim=2, dimensions=[0.5 * H + 0.5, 0.25 * W + 0.5], origin=[0.5, 3.0], scalar=True)
    ps = darsia.make_voxel([[0, 0], [H, 0], [H, W], [0, W]])
    pd = darsia.make_voxel([[0, 0], [H + 1, 0], [H + 1, W + 2], [0, W + 2]])
    with warnings.catch_warnings(), contextlib.redirect_stdout(io.StringIO()):
        warnings.simplefilter("ignore")
        gp = darsia.GeneralizedPerspectiveCorrection(src.coordinatesystem, dst.coordinatesystem, ps, pd, {"tol": 1e-3, "maxiter": 20})
    out.append(("perspective-reframe", gp, False, False))
    # the same for images of unusual physical size: nanometre-sized frames, frames of thousands of kilometres whose declared
    # placement differs from the image's by a relative 1e-6
    for tag, sc, dd in (("nano", 1e-9, 0.5), ("mega", 4e6, 2.5e-6)):
        src_ = darsia.Image(np.zeros((H, W)), space_dim=2, dimensions=[0.5 * H * sc, 0.25 * W * sc], origin=[1.0 * sc, 2.0 * sc], scalar=True)
        dst_ = darsia.Image(np.zeros((H + 1, W + 2)), space_dim=2, dimensions=[(0.5 * H + dd) * sc, (0.25 * W + dd) * sc], origin=[(1.0 - dd) * sc, (2.0 + dd) * sc], scalar=True)
        with warnings.catch_warnings(), contextlib.redirect_stdout(io.StringIO()):
            warnings.simplefilter("ignore")
            gp_ = darsia.GeneralizedPerspectiveCorrection(src_.coordinatesystem, dst_.coordinatesystem, ps, pd, {"tol": 1e-3, "maxiter": 20})
        gp_._verif_scale = sc
        out.append(("perspective-reframe-" + tag, gp_, False, False))
    return out


DPAT = [-1]


def make_input(darsia, rng, kind, shape, dtype, layout="C", mscale=1.0):
    """layout = memory layout of the caller's array (C, F, or a moved-axis view): the values are what counts"""
    H, W = shape
    rs = np.random.RandomState(rng.randrange(10 ** 6))

    def data(s):
        a = rs.randint(0, 255, size=s).astype(np.uint8) if dtype == "uint8" else rs.rand(*s).astype(dtype)
        # the values images carry, by turns: generic; signed (a difference image, within the range the unsigned pixel types
        # accept); with saturated / black regions and ties (blocks of exact 0 and exact 1, equal neighbours)
        DPAT[0] += 1
        if dtype != "uint8" and DPAT[0] % 3 == 1:
            a = (a - 0.5).astype(dtype)
        elif DPAT[0] % 3 == 2:
            flat = a.reshape(-1)
            flat[::3] = 0
            flat[1::7] = 255 if dtype == "uint8" else 1.0
        if layout == "F":
            a = np.asfortranarray(a)
        elif layout == "moved" and len(s) >= 3:
            # e.g. a stack of frames (T, H, W[, C]) viewed as (H, W, T[, C]): a non-contiguous view
            a = np.moveaxis(np.ascontiguousarray(np.moveaxis(a, 2, 0)), 0, 2)
        return a

    kw = dict(dimensions=[0.5 * H * mscale, 0.25 * W * mscale], origin=[1.0 * mscale, 2.0 * mscale])
    if kind == "array":
        return data((H, W, 3))
    if kind == "array-scalar":
        return data((H, W))
    if kind == "scalar":
        return darsia.ScalarImage(data((H, W)), name="s", **kw)
    if kind == "optical":
        return darsia.OpticalImage(data((H, W, 3)), color_space="RGB", name="o", **kw)
    if kind == "series":
        return darsia.OpticalImage(data((H, W, 2, 3)), color_space="RGB", series=True, time=[0.0, 1.0], **kw)
    if kind == "series-scalar":
        return darsia.ScalarImage(data((H, W, 3)), series=True, time=[0.0, 1.0, 2.0], **kw)
    raise KeyError(kind)


def same(a, b):
    a, b = np.asarray(a), np.asarray(b)
    return a.shape == b.shape and a.dtype == b.dtype and (np.array_equal(a, b) or np.allclose(a.astype(float), b.astype(float), rtol=1e-6, atol=1e-7, equal_nan=True))


def apply_case(darsia, name, corr, neutral, kind, overwrite, inp):
    e = {"op": "apply", "corr": name, "kind": kind.split("-")[0], "subkind": kind, "overwrite": int(overwrite), "neutral": int(neutral), "raised": 0,
         "same_object": 0, "input_unchanged": 0, "class_same": 0, "result_is_F": 0, "meta_ok": 0, "pixels_unchanged": 0, "independent": 1}
    is_img = not isinstance(inp, np.ndarray)
    raw = (inp.img if is_img else inp).copy()
    meta0 = digest_meta(inp.metadata()) if is_img else None
    try:
        with warnings.catch_warnings(), contextlib.redirect_stdout(io.StringIO()):
            warnings.simplefilter("ignore")
            # the reference: correction applied to (copies of) the raw array, slice by slice for series
            fresh = copy.deepcopy(getattr(corr, "_verif_ref", corr))
            if is_img and inp.series:
                sl = [raw[..., t] if inp.scalar else raw[..., t, :] for t in range(inp.time_num)]
                ref = np.stack([fresh.correct_array(s.copy()) for s in sl], axis=2)
            else:
                ref = fresh.correct_array(raw.copy())
            declared = fresh.correct_metadata(copy.deepcopy(inp.metadata())) if is_img else {}
            out = corr(inp, overwrite=overwrite)
    except Exception as ex:  # noqa
        e["raised"] = 1
        e["error"] = repr(ex)[:200]
        return e
    res = out.img if is_img else out
    e["same_object"] = int(out is inp)
    # without overwrite the result is a new image with pixel data of its own (work on it does not reach the input)
    e["independent"] = int(overwrite or not is_img or not np.shares_memory(res, inp.img))
    e["class_same"] = int(type(out) is type(inp))
    now = inp.img if is_img else inp
    e["input_unchanged"] = int(now.shape == raw.shape and now.dtype == raw.dtype and np.array_equal(now, raw, equal_nan=True) and (not is_img or digest_meta(inp.metadata()) == meta0))
    e["result_is_F"] = int(same(res, ref))
    if is_img:
        expect = dict(meta0)
        expect.update(digest_meta(declared))
        e["meta_ok"] = int(digest_meta(out.metadata()) == expect)
    e["pixels_unchanged"] = int(res.shape == raw.shape and np.allclose(np.asarray(res, dtype=float), np.asarray(raw, dtype=float) if raw.dtype != np.uint8 or res.dtype == np.uint8 else np.asarray(raw, dtype=float) / 255.0, rtol=1e-6, atol=1e-6))
    return e


def run(ck, replay=None):
    ck.sany("MC_Corrections", "Trace_Corrections")
    r = ck.model_check("MC_Corrections", "MC_Corrections.cfg", workers=1)
    combos = sorted({(p[1], bool(p[2])) for p in r.printed("SCN")})
    darsia = import_darsia()
    rng = random.Random(ck.seed)
    quick = ck.tier == "quick"
    # two corrections of one class with other parameters, made and applied to images of one shape along every interleaving of
    # spec/TwoObjects.tla: each applies ITS parameters
    from lib import twoobj
    thists = twoobj.histories(ck)
    tspecs = []
    Ht, Wt = 6, 7
    tin = np.random.RandomState(12).rand(Ht, Wt, 3)
    zero_b = {"horizontal_bulge": 0.0, "horizontal_center_offset": 0, "vertical_bulge": 0.0, "vertical_center_offset": 0}

    def mk_illum(o):
        ic = darsia.IlluminationCorrection()
        ic.colorspace = "rgb-scalar"
        ic.local_scaling = [darsia.ScalarImage(np.full((Ht, Wt), 2.0 if o == "a" else 0.5), dimensions=[1.0, 1.0])]
        return ic

    def mk_translation(o):
        pth = os.path.join(work0, f"tw_{o}.npy")
        np.save(pth, np.array([[1, 0, 1 if o == "a" else -2], [0, 1, -1 if o == "a" else 1]], dtype=np.float32))
        return darsia.TranslationCorrection(pth)

    work0 = tempfile.mkdtemp(prefix="c10tw-", dir=ck.work)
    makers = {"curvature": lambda o: darsia.CurvatureCorrection(config={"bulge": dict(zero_b, horizontal_bulge=1e-3 if o == "a" else 0.0, vertical_bulge=0.0 if o == "a" else 2e-3)}),
              "rotation": lambda o: darsia.RotationCorrection(anchor=[0, 0], rotations=[np.pi / 2 if o == "a" else -np.pi / 2]),
              "illumination": mk_illum, "translation": mk_translation,
              "type": lambda o: darsia.TypeCorrection(np.float32 if o == "a" else np.float64)}
    for kind, mk in makers.items():
        def make(o, mk=mk):
            with warnings.catch_warnings(), contextlib.redirect_stdout(io.StringIO()):
                warnings.simplefilter("ignore")
                return mk(o)

        def use(o, corr):
            with warnings.catch_warnings(), contextlib.redirect_stdout(io.StringIO()):
                warnings.simplefilter("ignore")
                r_ = np.asarray(corr.correct_array(tin.copy()))
            return [np.asarray(r_, dtype=float), np.array([r_.dtype.itemsize], dtype=float)]

        sel = thists if not quick else [h for h in thists if len(h) <= 4]
        tspecs.append((sel, "correction-" + kind, make, use, lambda x, y: all(p_.shape == q_.shape and np.allclose(p_, q_, rtol=1e-6, atol=1e-7) for p_, q_ in zip(x, y)), "twin:" + kind))
    ck.cov["twin_object_histories"] = twoobj.run(ck, "C10", tspecs)
    # one correction used again after calls it rejected (spec/FailedCalls.tla): inputs of the wrong kind in turn
    from lib import failedcalls
    fhists = failedcalls.histories(ck)
    fspecs = []
    # (inputs of another spatial shape are left out: CurvatureCorrection caches its grid un-keyed - the observation of CorrectionCache.tla)
    bad_inputs = [None, np.zeros((3,)), "not an image", np.zeros((Ht, Wt, 3), dtype=complex)[:, :, :0]]
    for kind, mk in makers.items():
        for bi, bad_in in enumerate(bad_inputs):
            def fmake(mk=mk):
                with warnings.catch_warnings(), contextlib.redirect_stdout(io.StringIO()):
                    warnings.simplefilter("ignore")
                    return mk("a")

            def fuse(corr):
                with warnings.catch_warnings(), contextlib.redirect_stdout(io.StringIO()):
                    warnings.simplefilter("ignore")
                    r_ = np.asarray(corr.correct_array(tin.copy()))
                return [np.asarray(r_, dtype=float), np.array([r_.dtype.itemsize], dtype=float)]

            def fmisuse(corr, bad_in=bad_in, bi=bi):
                with warnings.catch_warnings(), contextlib.redirect_stdout(io.StringIO()):
                    warnings.simplefilter("ignore")
                    return corr(bad_in) if bi % 2 else corr.correct_array(bad_in)

            fspecs.append((fhists, f"correction-{kind}-bad{bi}", fmake, fuse, fmisuse,
                           lambda x, y: all(p_.shape == q_.shape and np.allclose(p_, q_, rtol=1e-6, atol=1e-7) for p_, q_ in zip(x, y)), f"failed:{kind}:{bi}"))
    ck.cov["failed_call_histories"] = failedcalls.run(ck, "C10", fspecs)
    events = []
    work = tempfile.mkdtemp(prefix="c10-", dir=ck.work)
    for rep in range(1 if quick else 6):
        # (extents of every residue modulo 4 over the repetitions - centre conventions differ for odd sizes; the first one has 7 rows)
        shape = (7, rng.choice([4, 5, 6])) if rep == 0 else (rng.choice([5, 6, 8, 11]), rng.choice([4, 7, 9, 11]))
        for (name, corr, neutral, colour_only) in corrections(darsia, rng, shape, work):
            for kind, overwrite in combos:
                subkinds = {"array": ["array", "array-scalar"], "scalar": ["scalar"], "optical": ["optical"], "series": ["series", "series-scalar"]}[kind]
                for sk in subkinds:
                    if colour_only and sk in ("array-scalar", "scalar", "series-scalar"):
                        continue
                    # every multi-axis payload also as a non-contiguous view of the caller's data (and one Fortran-ordered)
                    layouts = ["C"] + (["moved"] if sk in ("series", "series-scalar", "optical", "array") else []) + (["F"] if rng.random() < 0.3 else [])
                    for layout in layouts:
                        dtype = rng.choice(["float64", "float32", "uint8"] if name.startswith(("type", "colour")) else ["float64", "float32"])
                        inp = make_input(darsia, rng, sk, shape, dtype, layout, mscale=getattr(corr, "_verif_scale", 1.0))
                        e = apply_case(darsia, name, copy.deepcopy(corr), neutral, sk, overwrite, inp)
                        e["tid"] = f"{name}:{sk}:{int(overwrite)}:{layout}:{rep}"
                        e["dtype"] = dtype
                        e["layout"] = layout
                        events.append(e)
    # corrections passed at image construction are applied in order
    for rep in range(2 if quick else 10):
        H, W = rng.randint(4, 6), rng.randint(4, 6)
        arr = np.random.RandomState(rep).rand(H, W, 3)
        ic = darsia.IlluminationCorrection()
        ic.colorspace = "rgb-scalar"
        ic.local_scaling = [darsia.ScalarImage(np.full((H, W), 2.0), dimensions=[1.0, 1.0])]
        t = darsia.TypeCorrection(np.float32)
        img = darsia.OpticalImage(arr.copy(), transformations=[ic, None, t], color_space="RGB", dimensions=[1.0, 1.0])
        ref = t.correct_array(ic.correct_array(arr.copy()))
        ok = same(img.img, ref)
        events.append({"tid": f"construct:{rep}", "op": "apply", "corr": "construction-order", "kind": "optical", "subkind": "optical", "overwrite": 1, "neutral": 0, "raised": 0,
                       "same_object": 1, "input_unchanged": 1, "class_same": 1, "result_is_F": int(ok), "meta_ok": 1, "pixels_unchanged": 0, "independent": 1})
    # ---- growth beyond the listed properties: the un-keyed grid cache of CurvatureCorrection (spec/CorrectionCache.tla).
    # TLC enumerates every history of up to three image shapes and what the as-built rule returns for it; the real class is
    # driven along each history and has to behave as that rule (a conformance clause of the specification, reported as a
    # note, never as a violation of C10); the desirable property is model-checked under both rules.
    ck.sany("CorrectionCache")
    rk = ck.model_check("CorrectionCache", "CorrectionCache_keyed.cfg", workers=1)
    ru = ck.tlc("CorrectionCache", "CorrectionCache_unkeyed_prop.cfg", workers=1, expect_ok=False, label="asbuilt-property")
    rh = ck.model_check("CorrectionCache", "CorrectionCache_unkeyed.cfg", workers=1)
    hists = {(tuple(map(tuple, p[1])), tuple(map(tuple, p[2]))) for p in rh.printed("HISTSHAPES")}
    agree, total = 0, 0
    for hist, outs in sorted(hists):
        with warnings.catch_warnings(), contextlib.redirect_stdout(io.StringIO()):
            warnings.simplefilter("ignore")
            cc = darsia.CurvatureCorrection(config={"bulge": {"horizontal_bulge": 1e-3, "horizontal_center_offset": 0, "vertical_bulge": 0.0, "vertical_center_offset": 0}})
            got = []
            try:
                for shp in hist:
                    got.append(tuple(cc.correct_array(np.random.RandomState(0).rand(*shp, 3)).shape[:2]))
            except Exception:  # noqa
                got.append(("raised",))
        total += 1
        agree += int(tuple(got) == outs)
    ck.cov["correction_cache"] = {"histories": total, "implementation_follows_unkeyed_rule": agree,
                                  "property_under_unkeyed_rule": "violated" if "ResultHasShapeOfItsInput" in ru.violated else "holds"}
    if total and agree == total and "ResultHasShapeOfItsInput" in ru.violated:
        print("OBSERVATION (not a listed property): CurvatureCorrection keeps the sampling grid of the first image it corrected (cache without a key): "
              f"on all {total} histories of up to three image shapes it returns what the un-keyed cache model returns - an image of another shape comes back "
              "with the first image's shape; the keyed rule satisfies ResultHasShapeOfItsInput (CorrectionCache.tla)")
    elif total:
        ck.note(f"CorrectionCache: the implementation follows the un-keyed rule on {agree} of {total} histories (the as-built model needs updating)")
    bad = ck.validate("Trace_Corrections", "Trace.cfg", events)
    for b in bad:
        e = b["event"]
        ck.violation(f"C10:{b['clause']}:{e['corr']}:{e['subkind']}:" + ("overwrite" if e["overwrite"] else "copy"),
                     f"{e['corr']} on {e['subkind']} (overwrite={e['overwrite']}) violates {b['clause']}", {k: v for k, v in e.items() if k != "tid"})
    ck.cov["evaluations"] = len(events)
    ck.cov["distinct_nontrivial"] = len({(e["corr"], e["subkind"], e["overwrite"]) for e in events if e["raised"] == 0})
    ck.cov["rule"] = "every constructible correction (type, rotation, translation, curvature, drift inactive, colour inactive, illumination with hand-set scaling, identity transformation) x input kind (array, scalar image, optical image, series; from TLC's configuration space) x overwrite; non-trivial = applications that did not raise"
    ck.cov["samples"] = [{k: v for k, v in events[0].items()}, {k: v for k, v in events[-1].items()}]
    ck.assumptions += ["reference result: correct_array of a deep copy of the correction applied to copies of the raw array (slice by slice for series); float comparison rtol 1e-6"]
