"""C17 — operations that return new objects do not modify their arguments."""
import contextlib
import copy
import hashlib
import io
import json
import random
import warnings

import numpy as np

from lib.core import import_darsia, MachineryError

LEVEL = "model_checking"


def digest(x):
    """Deep digest of an operand: data, dtype, shape and every metadata container's contents."""
    h = hashlib.sha1()

    def feed(v):
        if isinstance(v, np.ndarray):
            h.update(str((v.dtype, v.shape)).encode())
            h.update(np.ascontiguousarray(v).tobytes())
        elif isinstance(v, (list, tuple)):
            h.update(b"[")
            for y in v:
                feed(y)
            h.update(b"]")
        elif isinstance(v, dict):
            for k in sorted(v):
                h.update(str(k).encode())
                feed(v[k])
        elif hasattr(v, "img") and hasattr(v, "metadata"):
            feed(v.img)
            feed(type(v).__name__)
            feed(v.metadata())
            feed(getattr(v, "color_space", None))
        elif hasattr(v, "voxel_volume") and hasattr(v, "integrate"):
            feed(np.asarray(v.voxel_volume))
            feed(list(v.num_voxels))
            feed(list(v.dimensions))
        else:
            h.update(repr(v).encode())
    feed(x)
    return h.hexdigest()[:12]


def rng_digest():
    st = np.random.get_state()
    return hashlib.sha1(st[1].tobytes() + str(st[2:]).encode()).hexdigest()[:12]


def make_pool(darsia, rng):
    H, W = rng.randint(3, 5), rng.randint(3, 5)
    rs = np.random.RandomState(rng.randrange(10 ** 6))
    P = {}
    P["dimsA"] = [0.5 * H, 0.25 * W]
    P["dimsB"] = [0.5 * H, 0.25 * W]
    P["arrA"] = rs.randint(1, 9, size=(H, W)).astype(float)
    with warnings.catch_warnings():
        warnings.simplefilter("ignore")
        P["A"] = darsia.Image(P["arrA"].copy(), space_dim=2, dimensions=P["dimsA"], scalar=True, name="A")
        P["B"] = darsia.ScalarImage(rs.randint(1, 9, size=(H, W)).astype(float), dimensions=P["dimsB"], name="B")
        P["C"] = darsia.OpticalImage(rs.randint(0, 255, size=(H, W, 3)).astype(np.uint8), color_space="RGB", dimensions=[0.5 * H, 0.25 * W])
        P["Cf"] = darsia.OpticalImage(rs.rand(H, W, 3).astype(np.float32), color_space="RGB", dimensions=[0.5 * H, 0.25 * W])
        P["Cd"] = darsia.OpticalImage(rs.rand(H, W, 3), color_space="RGB", dimensions=[0.5 * H, 0.25 * W])   # float64 pixels
        P["C16"] = darsia.OpticalImage(rs.randint(0, 65535, size=(H, W, 3)).astype(np.uint16), color_space="RGB", dimensions=[0.5 * H, 0.25 * W])
        P["S"] = darsia.ScalarImage(rs.randint(1, 9, size=(H, W, 3)).astype(float), series=True, time=[0.0, 1.0, 2.0], dimensions=[0.5 * H, 0.25 * W])
        P["Sone"] = darsia.ScalarImage(rs.randint(1, 9, size=(H, W)).astype(float), dimensions=[0.5 * H, 0.25 * W])
        P["Wt"] = darsia.ScalarImage(rs.randint(1, 4, size=(2 * H, 2 * W)).astype(np.float32), dimensions=[0.5 * H, 0.25 * W], name="weight")
        P["Wsame"] = darsia.ScalarImage(rs.randint(1, 4, size=(H, W)).astype(float), dimensions=[0.5 * H, 0.25 * W])
        P["V"] = darsia.Image(rs.randint(1, 9, size=(2, 3, 2)).astype(float), space_dim=3, dimensions=[1.0, 1.5, 2.0], scalar=True)
        P["M1"] = darsia.ScalarImage(np.ones((H, W)) * 2.0, dimensions=[0.5 * H, 0.25 * W])
        P["M2"] = darsia.ScalarImage(np.roll(np.ones((H, W)) * 2.0, 0), dimensions=[0.5 * H, 0.25 * W])
        P["G"] = darsia.Geometry(space_dim=2, num_voxels=(H, W), dimensions=[0.5 * H, 0.25 * W])
        P["mask"] = rs.rand(H, W) > 0.3
        P["fitopts"] = {"tol": 1e-3, "maxiter": 20}
        # a bimodal signal with a two-region label map and caller-owned label-wise threshold bounds (float64 arrays / lists)
        P["sig"] = np.where(rs.rand(40, 40) < 0.5, 0.2 + 0.05 * rs.randn(40, 40), 0.7 + 0.05 * rs.randn(40, 40))
        P["siglabels"] = np.zeros((40, 40), dtype=int)
        P["siglabels"][:, 20:] = 1
        P["sigmask"] = np.ones((40, 40), dtype=bool)
        P["thr_lo"] = np.array([0.0, 0.1])
        P["thr_hi"] = np.array([0.9, 0.95])
        P["thr_lo_list"] = [0.0, 0.1]
        # caller-owned containers that are handed to the library as they are
        P["Ma"] = darsia.ScalarImage(np.array(rs.randint(1, 5, size=(H, W)), dtype=float), dimensions=[0.5 * H, 0.25 * W])
        mb = np.array(rs.randint(1, 5, size=(H, W)), dtype=float)
        P["Mb"] = darsia.ScalarImage(mb * P["Ma"].img.sum() / mb.sum(), dimensions=[0.5 * H, 0.25 * W])
        P["optsW"] = {"num_iter": 3, "linear_solver": "amg", "formulation": "pressure", "linear_solver_options": {"atol": 1e-10, "rtol": 1e-10, "maxiter": 50},
                      "amg_options": {"max_coarse": 4}}
        P["imglist"] = [P["M1"], P["M2"], P["Sone"]]
        P["timelist"] = [0.0, 1.5, 4.0]
        P["originlist"] = [3.0, 7.0]
        P["originarr"] = np.array([0.25, 1.75])
        P["Bo"] = darsia.ScalarImage(rs.randint(1, 9, size=(H, W)).astype(float), dimensions=[0.5 * H, 0.25 * W], origin=[0.25, 1.75], name="Bo")
        P["cfgdrift"] = {"active": False, "padding": 0.1, "roi": np.array([[0, 0], [H - 1, W - 1]])}
        P["U8a"] = darsia.ScalarImage(rs.randint(0, 100, size=(H, W)).astype(np.uint8), dimensions=[0.5 * H, 0.25 * W])
        P["U8b"] = darsia.ScalarImage(rs.randint(0, 100, size=(H, W)).astype(np.uint8), dimensions=[0.5 * H, 0.25 * W])
        P["F32"] = darsia.ScalarImage(rs.rand(H, W).astype(np.float32), dimensions=[0.5 * H, 0.25 * W])
        wx = np.full((H, W), 1e6)
        wx.ravel()[::3] = 1e-6
        wx.ravel()[1::5] = 0.0 + 1e-12
        P["Wextreme"] = darsia.ScalarImage(wx, dimensions=[0.5 * H, 0.25 * W], name="weight-extreme")
        P["Fsigned"] = darsia.ScalarImage(rs.rand(H, W) * 3.0 - 1.5, dimensions=[0.5 * H, 0.25 * W])
        P["Fsum"] = darsia.OpticalImage((rs.rand(H, W, 3) + rs.rand(H, W, 3)).astype(np.float32), color_space="RGB", dimensions=[0.5 * H, 0.25 * W])
    # regions of interest the caller keeps (and uses again): voxel / coordinate corner arrays inside the image and sticking out
    P["roi_vox_in"] = darsia.make_voxel([[0, 0], [2, 2]])
    P["roi_vox_out"] = darsia.make_voxel([[-3, 1], [H + 2, W + 4]])
    P["roi_xy_out"] = darsia.make_coordinate([[-1.0, -2.0], [0.2 * W, 0.4 * H]])
    P["_shape"] = (H, W)
    return P


def registry(darsia):
    """name -> (callable(P, rng) -> result, operands the form is documented to modify)."""
    R = {}

    def add(name, f, mut=()):
        R[name] = (f, list(mut))
    # arithmetic and comparisons (checked against raw arrays as well)
    add("add", lambda P, r: P["A"] + P["B"])
    add("sub", lambda P, r: P["A"] - P["B"])
    add("mul_float", lambda P, r: P["A"] * 2.5)
    add("rmul_float", lambda P, r: 0.5 * P["A"])
    add("mul_int", lambda P, r: P["A"] * 3)
    add("lt", lambda P, r: P["A"] < P["B"])
    add("gt_scalar", lambda P, r: P["A"] > 4)
    add("eq", lambda P, r: P["A"] == P["B"])
    add("le", lambda P, r: P["A"] <= 4.5)
    add("ge", lambda P, r: P["A"] >= P["B"])
    # conversions returning an image
    add("copy", lambda P, r: P["A"].copy())
    add("astype_float32", lambda P, r: P["A"].astype(np.float32))
    add("astype_class", lambda P, r: P["B"].astype(darsia.Image))
    add("img_as_float", lambda P, r: P["C"].img_as(float))
    add("img_as_ubyte", lambda P, r: P["Cf"].img_as(np.uint8))
    # conversions of images whose values leave the nominal range of their pixel type (a sum of two normalised images, a signed
    # difference, values 1..9 in a float image) to every target type
    # (uint16 is left out: skimage rejects floats outside [-1, 1] for it with a ValueError - a rejection, not a modification)
    for tname, tt in (("uint8", np.uint8), ("float32", np.float32), ("float64", np.float64), ("bool", bool)):
        add("img_as_" + tname + "_out_of_range", lambda P, r, tt=tt: P["A"].img_as(tt))
        add("img_as_" + tname + "_signed", lambda P, r, tt=tt: P["Fsigned"].img_as(tt))
        add("img_as_" + tname + "_sum", lambda P, r, tt=tt: P["Fsum"].img_as(tt))
    add("to_trichromatic_return", lambda P, r: P["C"].to_trichromatic("HSV", return_image=True))
    add("to_trichromatic_same", lambda P, r: P["C"].to_trichromatic("RGB", return_image=True))
    add("to_monochromatic_gray", lambda P, r: P["C"].to_monochromatic("gray"))
    add("to_monochromatic_red", lambda P, r: P["Cf"].to_monochromatic("red"))
    add("to_monochromatic_hue", lambda P, r: P["Cf"].to_monochromatic("hue"))
    # every pixel type of optical images through the colour-space and channel conversions
    for key in ("C", "Cf", "Cd", "C16"):
        # (OpenCV converts 16-bit data between RGB and BGR / gray only; the other spaces are for 8-bit and float data)
        for cs in (("HSV", "BGR", "LAB", "HLS") if key != "C16" else ("BGR",)):
            add(f"to_trichromatic_{cs}_{key}", lambda P, r, key=key, cs=cs: P[key].to_trichromatic(cs, return_image=True))
        for ch in (("gray", "red", "hue", "value", "saturation") if key != "C16" else ("gray", "red")):
            add(f"to_monochromatic_{ch}_{key}", lambda P, r, key=key, ch=ch: P[key].to_monochromatic(ch))
        add(f"img_as_float32_{key}", lambda P, r, key=key: P[key].img_as(np.float32))
    add("metadata", lambda P, r: P["A"].metadata())
    add("shape_metadata", lambda P, r: P["A"].shape_metadata())
    # extraction
    add("subregion_slices", lambda P, r: P["A"].subregion((slice(0, 2), slice(1, None))))
    add("subregion_voxels", lambda P, r: P["A"].subregion(darsia.make_voxel([[0, 0], [2, 2]])))
    add("subregion_caller_voxels", lambda P, r: P["A"].subregion(P["roi_vox_in"]))
    add("subregion_caller_voxels_outside", lambda P, r: P["A"].subregion(P["roi_vox_out"]))
    add("subregion_caller_coords_outside", lambda P, r: P["A"].subregion(P["roi_xy_out"]))
    add("subregion_coords", lambda P, r: P["A"].subregion(darsia.make_coordinate([list(P["A"].origin), list(P["A"].opposite_corner)])))
    add("time_slice", lambda P, r: P["S"].time_slice(1))
    add("time_interval", lambda P, r: P["S"].time_interval(slice(0, 2)))
    add("slice_index", lambda P, r: P["V"].slice(1, 1))
    add("slice_name", lambda P, r: P["V"].slice(float(P["V"].origin[0]) + 0.4, "x"))
    add("reset_origin_return", lambda P, r: P["B"].copy().reset_origin(return_image=True))
    # weighting, superposition, stacking
    add("weight_float", lambda P, r: darsia.weight(P["A"], 2.0))
    add("weight_int", lambda P, r: darsia.weight(P["A"], 3))
    add("weight_image_same", lambda P, r: darsia.weight(P["A"], P["Wsame"]))
    add("weight_image_other_shape", lambda P, r: darsia.weight(P["A"], P["Wt"]))
    add("weight_array_per_slice", lambda P, r: darsia.weight(P["S"], np.array([1.0, 2.0, 3.0])))
    add("superpose", lambda P, r: darsia.superpose([P["A"], P["B"]]))
    add("stack", lambda P, r: darsia.stack([P["M1"], P["M2"]]))
    add("stack_series_then_single", lambda P, r: darsia.stack([P["S"], P["Sone"]]))
    add("stack_three", lambda P, r: darsia.stack([P["M1"], P["M2"], P["Sone"]]))
    # resizing, reduction
    add("resize_shape", lambda P, r: darsia.resize(P["A"], shape=(2, 2), interpolation="inter_area"))
    add("resize_ref", lambda P, r: darsia.resize(P["A"], ref_image=P["Wt"]))
    add("Resize_array", lambda P, r: darsia.Resize(shape=(2, 2))(P["arrA"]))
    add("equalize_voxel_size", lambda P, r: darsia.equalize_voxel_size(P["A"]))
    add("uniform_refinement_up", lambda P, r: darsia.uniform_refinement(P["A"], 1))
    add("uniform_refinement_down", lambda P, r: darsia.uniform_refinement(P["A"], -1))
    add("reduce_axis_index", lambda P, r: darsia.reduce_axis(P["V"], 0, mode="sum"))
    add("reduce_axis_name", lambda P, r: darsia.reduce_axis(P["V"], "y", mode="average"))
    add("extrude", lambda P, r: darsia.extrude_along_axis(P["A"], 0.5, 2))
    add("zeros_like", lambda P, r: darsia.zeros_like(P["A"]))
    add("ones_like_voxels", lambda P, r: darsia.ones_like(P["C"], mode="voxels"))
    # models
    add("clip_image", lambda P, r: darsia.ClipModel(**{"min value": 2.0, "max value": 6.0})(P["A"]))
    add("clip_array", lambda P, r: darsia.ClipModel(**{"min value": 2.0, "max value": 6.0})(P["arrA"]))
    add("linear_array", lambda P, r: darsia.LinearModel(scaling=2.0, offset=1.0)(P["arrA"]))
    # neutral / boundary parameters (factor exactly 1, offset 0, clip bounds that do not bind, default-constructed models):
    # shortcuts for them must not hand the caller's array back or write into it
    add("linear_unit_scaling_array", lambda P, r: darsia.LinearModel(scaling=1.0, offset=0.25)(P["arrA"]))
    add("linear_default_then_offset", lambda P, r: (lambda m: (m.update(offset=0.5), m(P["arrA"]), m(P["arrA"]))[-1])(darsia.LinearModel()))
    add("linear_zero_offset_array", lambda P, r: darsia.LinearModel(scaling=2.0, offset=0.0)(P["arrA"]))
    add("linear_identity_array", lambda P, r: darsia.LinearModel(scaling=1.0, offset=0.0)(P["arrA"]))
    add("scaling_one_array", lambda P, r: darsia.ScalingModel(scaling=1.0)(P["arrA"]))
    add("clip_nonbinding_array", lambda P, r: darsia.ClipModel(**{"min value": -1e9, "max value": 1e9})(P["arrA"]))
    add("clip_default_array", lambda P, r: darsia.ClipModel()(P["arrA"]))
    add("scaling_unit_array", lambda P, r: darsia.ScalingModel(scaling=3.0)(P["arrA"]))
    add("combined_array", lambda P, r: darsia.CombinedModel([darsia.LinearModel(scaling=2.0), darsia.ClipModel(**{"max value": 9.0})])(P["arrA"]))
    add("threshold_array", lambda P, r: darsia.StaticThresholdModel(2.0, 6.0)(P["arrA"], P["mask"]))
    add("threshold_labels_arrays", lambda P, r: darsia.StaticThresholdModel(P["thr_lo"], P["thr_hi"], labels=P["siglabels"])(P["sig"], P["sigmask"]))
    for meth in ("otsu", "tailored global min", "tailored otsu"):
        add("dynamic_threshold_" + meth.replace(" ", "_"), lambda P, r, meth=meth: darsia.DynamicThresholdModel(meth, P["thr_lo"], P["thr_hi"], P["siglabels"])(P["sig"]))
    add("dynamic_threshold_twice", lambda P, r: (lambda m: (m(P["sig"]), m(P["sig"], P["sigmask"])))(darsia.DynamicThresholdModel("otsu", P["thr_lo"], P["thr_hi"], P["siglabels"])))
    add("threshold_manager_dynamic", lambda P, r: darsia.ThresholdModel(labels=P["siglabels"], **{"threshold dynamic": True, "threshold method": "otsu",
                                                                                                  "threshold value min": P["thr_lo_list"], "threshold value max": P["thr_hi"]})(P["sig"]))
    add("hetlinear_labels", lambda P, r: darsia.HeterogeneousLinearModel(P["siglabels"].astype(np.uint8), scaling=P["thr_hi"], offset=P["thr_lo"])(P["sig"]))
    # integration and distances
    add("integrate_image", lambda P, r: P["G"].integrate(P["A"]), mut=["G"])
    add("integrate_array", lambda P, r: P["G"].integrate(P["arrA"]), mut=["G"])
    add("normalize", lambda P, r: P["G"].normalize(P["A"], P["B"]), mut=["G"])
    add("emd", lambda P, r: darsia.EMD()(P["M1"], P["M2"]))
    add("wasserstein_newton", lambda P, r: darsia.wasserstein_distance(P["M1"], P["M2"], method="newton", options={"num_iter": 3}))
    add("wasserstein_bregman", lambda P, r: darsia.wasserstein_distance(P["M1"], P["M2"], method="bregman", options={"num_iter": 3}))
    # a caller-owned weight image of extreme contrast (1e-6 and 1e-12 next to 1e6)
    add("wasserstein_newton_weight_extreme", lambda P, r: darsia.wasserstein_distance(P["Ma"], P["Mb"], method="newton", weight=P["Wextreme"], options={"num_iter": 2}))
    add("wasserstein_bregman_weight_extreme", lambda P, r: darsia.wasserstein_distance(P["Ma"], P["Mb"], method="bregman", weight=P["Wextreme"], options={"num_iter": 2}))
    add("wasserstein_caller_options", lambda P, r: darsia.wasserstein_distance(P["Ma"], P["Mb"], method="newton", options=P["optsW"]))
    # calls the library rejects part-way (the AMG hierarchy cannot be set up with these options): arguments and the global
    # random state are as they were after the exception too
    for meth_ in ("newton", "bregman"):
        for bad_amg in ({"max_coarse": 4, "strength": "not-a-strength-measure"}, {"max_coarse": 2, "smooth": "no-such-smoother"}, {"max_coarse": 3, "aggregate": "no-such-aggregation"}):
            add(f"wasserstein_rejected_{meth_}_{sorted(set(bad_amg) - {'max_coarse'})[0]}",
                lambda P, r, meth_=meth_, bad_amg=bad_amg: darsia.wasserstein_distance(P["Ma"], P["Mb"], method=meth_, options=dict(P["optsW"], amg_options=dict(bad_amg))))
    add("wasserstein_caller_options_bregman", lambda P, r: darsia.wasserstein_distance(P["Ma"], P["Mb"], method="bregman", options=P["optsW"]))
    add("emd_distinct", lambda P, r: darsia.EMD()(P["Ma"], P["Mb"]))
    add("superpose_caller_list", lambda P, r: darsia.superpose(P["imglist"]))
    add("stack_caller_list", lambda P, r: darsia.stack(P["imglist"]))
    add("ctor_time_list", lambda P, r: darsia.Image(P["S"].img.copy(), space_dim=2, dimensions=P["dimsB"], scalar=True, series=True, time=P["timelist"]))
    add("ctor_origin_list", lambda P, r: darsia.Image(P["arrA"].copy(), space_dim=2, dimensions=P["dimsB"], origin=P["originlist"], scalar=True))
    add("drift_caller_config", lambda P, r: darsia.DriftCorrection(P["Cf"].img, config=P["cfgdrift"])(P["Cf"]))
    # images derived from other images (or from a caller's origin array), then given a new origin: the source keeps its own
    add("ctor_origin_array", lambda P, r: darsia.Image(P["arrA"].copy(), space_dim=2, dimensions=P["dimsB"], origin=P["originarr"], scalar=True))
    add("ctor_origin_array_then_reset", lambda P, r: darsia.Image(P["arrA"].copy(), space_dim=2, dimensions=P["dimsB"], origin=P["originarr"], scalar=True).reset_origin(return_image=True))
    add("zeros_like_then_reset", lambda P, r: darsia.zeros_like(P["Bo"]).reset_origin(return_image=True))
    add("ones_like_then_reset", lambda P, r: darsia.ones_like(P["Bo"]).reset_origin(return_image=True))
    add("astype_class_then_reset", lambda P, r: P["Bo"].astype(darsia.Image).reset_origin(return_image=True))
    add("metadata_ctor_then_update", lambda P, r: darsia.Image(P["Bo"].img.copy(), **P["Bo"].metadata()).update_metadata(origin=darsia.Coordinate([9.0, 9.0])))
    add("subregion_then_reset", lambda P, r: P["Bo"].subregion((slice(0, 2), slice(0, 2))).reset_origin(return_image=True))
    # arithmetic on the other pixel types
    add("add_uint8", lambda P, r: P["U8a"] + P["U8b"])
    add("sub_float32", lambda P, r: P["F32"] - P["F32"])
    add("mul_float32", lambda P, r: P["F32"] * 2.5)
    add("lt_uint8", lambda P, r: P["U8a"] < P["U8b"])
    # utilities
    add("bounding_box", lambda P, r: darsia.bounding_box(np.array([[0, 1], [2, 2]])))
    add("random_patches", lambda P, r: darsia.random_patches(P["mask"], 1, 3))
    add("generate_grid", lambda P, r: darsia.generate_grid(P["A"]))
    def genpersp(P, r):
        im = P["A"]
        pts = darsia.make_voxel([[0, 0], [im.img.shape[0], 0], [im.img.shape[0], im.img.shape[1]], [0, im.img.shape[1]]])
        return darsia.GeneralizedPerspectiveCorrection(im.coordinatesystem, im.coordinatesystem, pts, pts, P["fitopts"])(im)
    add("generalized_perspective_ctor", genpersp)
    # constructors with caller-owned containers
    add("ctor_dimensions_list", lambda P, r: darsia.Image(P["arrA"].copy(), space_dim=2, dimensions=P["dimsB"], scalar=True))
    add("ctor_height_width", lambda P, r: darsia.Image(P["arrA"].copy(), space_dim=2, dimensions=P["dimsB"], height=7.0, width=9.0, scalar=True))
    add("ctor_from_metadata", lambda P, r: darsia.Image(P["A"].img.copy(), **P["A"].metadata()))
    add("ctor_from_metadata_height", lambda P, r: darsia.Image(P["A"].img.copy(), **{**P["A"].metadata(), "height": 5.0}))
    return R


ARITH = {
    "add": lambda P: P["A"].img + P["B"].img, "sub": lambda P: P["A"].img - P["B"].img, "mul_float": lambda P: P["A"].img * 2.5,
    "rmul_float": lambda P: 0.5 * P["A"].img, "mul_int": lambda P: P["A"].img * 3, "lt": lambda P: P["A"].img < P["B"].img,
    "gt_scalar": lambda P: P["A"].img > 4, "eq": lambda P: P["A"].img == P["B"].img, "le": lambda P: P["A"].img <= 4.5, "ge": lambda P: P["A"].img >= P["B"].img,
}


def run_chain(darsia, rng, tid, forms, R, adopt=None):
    P = make_pool(darsia, rng)
    events = []
    np.random.seed(rng.randrange(2 ** 31))
    for i, name in enumerate(forms):
        f, mut = R[name]
        live = {k: v for k, v in P.items() if not k.startswith("_")}
        pre = {k: digest(v) for k, v in live.items()}
        r0 = rng_digest()
        expect = ARITH[name](P) if name in ARITH else None
        e = {"tid": tid, "i": i, "form": name, "mut": mut, "raised": 0, "arith_ok": 1, "rng_same": 1, "rejects": int(name.startswith("wasserstein_rejected_"))}
        try:
            with warnings.catch_warnings(), contextlib.redirect_stdout(io.StringIO()):
                warnings.simplefilter("ignore")
                res = f(P, rng)
            if expect is not None:
                e["arith_ok"] = int(hasattr(res, "img") and np.array_equal(np.asarray(res.img), expect))
        except Exception as ex:  # noqa
            e["raised"] = 1
            e["error"] = repr(ex)[:160]
            res = None
        e["rng_same"] = int(rng_digest() == r0)
        e["pre"] = pre
        e["post"] = {k: digest(v) for k, v in live.items()}
        events.append(e)
        # results join the pool: later steps act on objects that may share containers with earlier operands
        if res is not None and hasattr(res, "img") and hasattr(res, "metadata") and i < len(forms) - 1:
            key = f"r{i}"
            P[key] = res
            if ((rng.random() < 0.5 if adopt is None else adopt) and res.img.shape == P["A"].img.shape and res.scalar and res.space_dim == 2 and not res.series and res.img.dtype == P["A"].img.dtype
                    and np.allclose(res.dimensions, P["B"].dimensions) and np.allclose(np.asarray(res.origin), np.asarray(P["B"].origin))):   # preconditions of the binary forms (same coordinate system)
                P["A_prev"], P["A"] = P["A"], res    # the next steps use the result as receiver; the old receiver stays observed
    return events


def run(ck, replay=None):
    ck.sany("FrameImpl", "Trace_Frame")
    r = ck.model_check("FrameImpl", "FrameImpl_fixed.cfg", workers=2)
    model_chains = [p[1] for p in r.printed("SCN")]
    reg = ck.tlc("FrameImpl", "FrameImpl_asbuilt.cfg", workers=1, expect_ok=False, label="regression-model")
    if "NoStepChangesAnotherObject" not in reg.violated:
        raise MachineryError("FrameImpl no longer rejects the shared dimensions list (vacuity guard)")
    darsia = import_darsia()
    rng = random.Random(ck.seed)
    quick = ck.tier == "quick"
    R = registry(darsia)
    names = sorted(R)
    chains = []
    if replay:
        chains = [c["chain"] for c in json.load(open(replay))["cases"]]
    else:
        for n in names:                       # every call form on fresh operands
            chains.append([n])
        for hist in (model_chains if not quick else rng.sample(model_chains, 40)):   # sharing chains from the model
            chains.append([{"derive": rng.choice(["add", "mul_float", "subregion_slices", "ctor_from_metadata", "copy"]), "height": "ctor_from_metadata_height"}[h[0]] for h in hist])
        # every form twice in a row, the first result (a) kept as a bystander of the second call, (b) used as its receiver
        # where it fits; and each form followed by a related form of the same family (same kind of result, other operands)
        for n in names:
            chains.append(("keep", [n, n]))
            chains.append(("adopt", [n, n]))
        fams = {}
        for n in names:
            fams.setdefault(n.split("_")[0], []).append(n)
        fpairs = [("keep", [a_, b_]) for fam in fams.values() for a_ in fam for b_ in fam if a_ != b_]
        chains += fpairs if not quick else rng.sample(fpairs, min(len(fpairs), 40)) + [p_ for p_ in fpairs if p_[1][0].startswith(("superpose", "stack"))]
        for _ in range(30 if quick else 600):  # seeded chains of up to five forms on shared operands
            chains.append([rng.choice(names) for _ in range(rng.randint(2, 5))])
    events, info = [], {}
    for ci, ch in enumerate(chains):
        tid = f"k{ci}"
        adopt = None
        if isinstance(ch, tuple):
            adopt, ch = ch[0] == "adopt", ch[1]
            chains[ci] = ch
        info[tid] = ch
        events += run_chain(darsia, rng, tid, ch, R, adopt)
    bad = ck.validate("Trace_Frame", "Trace.cfg", events, chunk=600)
    for b in bad:
        e = b["event"]
        changed = sorted(b["extra"][0]) if b["extra"] else []
        what = ",".join(c for c in changed if not c.startswith("r")) or ",".join(changed)
        sig = f"C17:{b['clause']}:{e['form']}"
        ck.violation(sig, f"{e['form']} violates {b['clause']}" + (f" (changed: {what})" if what else ""), {"chain": info[b["tid"]], "step": e["i"], "form": e["form"], "changed": changed, "error": e.get("error")})
    ck.cov["evaluations"] = len(events)
    ck.cov["distinct_nontrivial"] = len({tuple(c) for c in chains if len(c) >= 2}) + len(names)
    ck.cov["rule"] = f"registry of {len(names)} call forms documented to return new objects, each on fresh operands; sharing chains enumerated by TLC (FrameImpl) mapped to derive / construct-with-height forms; seeded chains of 2..5 forms on shared operands (results rejoin the pool); deep digests of every live operand, caller-owned containers and the numpy RNG state before and after each call"
    ck.cov["registry_size"] = len(names)
    ck.cov["samples"] = [chains[len(names) + 1], chains[-1]]
    ck.assumptions += ["digests cover pixel data, dtype, shape, class, every metadata field and caller-owned lists/dicts", "Geometry objects may update their internal cache (documented receiver)"]
