"""C13 — concentration analysis zeroes the baseline and applies its stages in order."""
import datetime
import json
import random
import warnings

import numpy as np

from lib.core import import_darsia

LEVEL = "model_checking"
BAD = 99999999


XPAT = [-1]
OFFMAG = [-1]


def run_case(darsia, rng, tid, cfg, nextra, rgb, dtype, shape, probe_is_base):
    calls = []
    recording = {"on": False}

    def rec(name):
        if recording["on"]:
            calls.append(name)

    def red(a):
        rec("red")
        a = np.asarray(a)
        return a[..., 0] + 2 * a[..., 1] + 4 * a[..., 2] if rgb else 5 * a

    def bal(a):
        rec("bal")
        return 3 * a

    def res(a):
        rec("res")
        return np.floor(a / 2)

    def mod(a):
        rec("mod")
        return np.where(a > 0, a + 1, np.where(a < 0, a - 1, 0.0))

    full = tuple(shape) + ((3,) if rgb else ())
    scale = {"float64": 1, "float32": 1, "uint8": 255, "uint16": 65535}[dtype]

    # (float images in raw counts of order 1e6 every third time: the analysis works on differences, whatever the common level)
    OFFMAG[0] += 1
    level = 1000000 if (dtype == "float64" and OFFMAG[0] % 3 == 1) else 0

    def arr():
        return (np.array([rng.randint(0, 3) for _ in range(int(np.prod(full)))]).reshape(full) + level).astype(dtype)

    def image(a):
        # (images of an experiment: named, placed, dated relative to the start of the experiment)
        kw = dict(dimensions=[0.5 * shape[0], 0.25 * shape[1]], origin=[1.0, 2.0], name="probe",
                  date=datetime.datetime(2024, 5, 1, 12, 0, 0), reference_date=datetime.datetime(2024, 5, 1, 10, 0, 0))
        if rgb:
            return darsia.OpticalImage(a, color_space="RGB", **kw)
        return darsia.ScalarImage(a, **kw)

    base_a = arr()
    extras_a = [arr() for _ in range(nextra)]
    # (the extra baselines by turns: other recordings; the very recording of the baseline passed again - the learned filter is
    # zero, cleaning still clips negative signals; the baseline among other recordings)
    if nextra >= 1:
        XPAT[0] += 1
        if XPAT[0] % 3 == 1:
            extras_a = [base_a.copy() for _ in range(nextra)]
        elif XPAT[0] % 3 == 2:
            extras_a[0] = base_a.copy()
    # ONE analysis object serves several probes one after the other (that is how it is used on an image series): every
    # call is judged on its own; the last probe is the baseline itself
    probes = [base_a.copy() if probe_is_base else arr(), arr(), base_a.copy()]
    newbase_a = arr()
    if nextra == 0:
        # without a cleaning filter the baseline may be replaced later: update(base=...) - the new baseline maps to zero,
        # other probes are taken relative to it
        probes += [("update", newbase_a), ("update", arr())]
    new_extras = [arr() for _ in range(max(1, nextra))]
    if nextra >= 1:
        # the cleaning filter is learned again from ANOTHER series of baseline images: from then on probes are cleaned with the
        # filter of that series (not with a mixture of the old and the new one)
        probes += [("refilter", arr()), ("refilter", base_a.copy())]
    evs = []
    ca = None
    companions = []
    omit = (rng.random() < 0.5, rng.random() < 0.5)
    for j, probe_a in enumerate(probes):
        if isinstance(probe_a, tuple) and probe_a[0] == "refilter":
            if extras_a is not new_extras:
                try:
                    with warnings.catch_warnings():
                        warnings.simplefilter("ignore")
                        ca.find_cleaning_filter([image(x) for x in new_extras])
                except Exception as ex:  # noqa
                    evs.append({"tid": f"{tid}:{j}", "op": "run", "cfg": cfg, "rgb": int(rgb), "dtype": dtype, "raised": 1, "nextra": nextra, "call": j, "error": "find_cleaning_filter: " + repr(ex)[:160]})
                    break
                extras_a = new_extras
            probe_a = probe_a[1]
        if isinstance(probe_a, tuple):
            if j == 3:
                try:
                    with warnings.catch_warnings():
                        warnings.simplefilter("ignore")
                        ca.update(base=image(newbase_a))
                except Exception as ex:  # noqa
                    evs.append({"tid": f"{tid}:{j}", "op": "run", "cfg": cfg, "rgb": int(rgb), "dtype": dtype, "raised": 1, "nextra": nextra, "call": j, "error": "update: " + repr(ex)[:160]})
                    break
                base_a = newbase_a
            probe_a = probe_a[1]
        if j == 1 and ca is not None:
            # a second analysis of the same configuration and image shape, with its own baseline and its own series of extra
            # baselines, is set up and used in between: the first one goes on cleaning with ITS filter
            try:
                with warnings.catch_warnings():
                    warnings.simplefilter("ignore")
                    other = darsia.ConcentrationAnalysis(
                        base=[image(arr())] + [image(arr()) for _ in range(max(1, nextra))],
                        signal_reduction=red if cfg["red"] else None, balancing=bal if cfg["bal"] else None,
                        restoration=res if cfg["res"] else None, model=mod if cfg["mod"] else None,
                        **{"diff option": cfg["diff"], "restoration -> model": bool(cfg["order"])})
                    other(image(arr()))
                    companions.append(other)
            except Exception:  # noqa  (the companion is not the subject)
                pass
        e = {"tid": f"{tid}:{j}", "op": "run", "cfg": cfg, "rgb": int(rgb), "dtype": dtype, "raised": 0, "nextra": nextra, "call": j}
        evs.append(e)
        del calls[:]
        try:
            with warnings.catch_warnings():
                warnings.simplefilter("ignore")
                if ca is None:
                    ca = darsia.ConcentrationAnalysis(
                        base=[image(base_a)] + [image(x) for x in extras_a],
                        signal_reduction=red if cfg["red"] else None,
                        balancing=bal if cfg["bal"] else None,
                        restoration=res if cfg["res"] else None,
                        model=mod if cfg["mod"] else None,
                        # the documented defaults (absolute differences, restoration before the model) also by omission
                        **{k_: v_ for k_, v_ in {"diff option": cfg["diff"], "restoration -> model": bool(cfg["order"])}.items()
                           if not ((k_ == "diff option" and v_ == "absolute" and omit[0]) or (k_ == "restoration -> model" and v_ is True and omit[1]))},
                    )
                probe = image(probe_a)
                before = (probe.img.copy(), probe.metadata())
                recording["on"] = True
                try:
                    out = ca(probe)
                finally:
                    recording["on"] = False
            res_arr = np.asarray(out.img, dtype=float) * scale
            k = np.round(res_arr)
            okq = np.abs(res_arr - k) <= 1e-6 * (1 + np.abs(k))
            k = k.astype(np.int64)
            k[~okq] = BAD
            nch = 1 if k.ndim == 2 else k.shape[-1]
            P = probe_a.reshape(-1, 3 if rgb else 1).astype(int)
            B = base_a.reshape(-1, 3 if rgb else 1).astype(int)
            X = [x.reshape(-1, 3 if rgb else 1).astype(int) for x in extras_a]
            e["probe"] = P.tolist()
            e["base"] = B.tolist()
            e["extras"] = [[x[i].tolist() for x in X] for i in range(len(P))]
            e["result"] = k.reshape(-1, nch).tolist()
            e["calls"] = list(calls)
            after_meta = probe.metadata()
            e["probe_unchanged"] = int(np.array_equal(before[0], probe.img) and probe.img.dtype == np.dtype(dtype)
                                       and all(np.array_equal(np.asarray(before[1][k_]), np.asarray(after_meta[k_])) if k_ in ("origin", "dimensions") else before[1][k_] == after_meta[k_] for k_ in before[1]))
            om = out.metadata()
            e["meta_equal"] = int(np.allclose(om["dimensions"], before[1]["dimensions"]) and np.allclose(om["origin"], before[1]["origin"])
                                  and om["space_dim"] == 2 and om["name"] == before[1]["name"] and out.img.shape[:2] == tuple(shape)
                                  and om.get("date") == before[1].get("date") and om.get("reference_date") == before[1].get("reference_date")
                                  and om.get("time") == before[1].get("time") and out.reference_date == probe.reference_date)
            e["scalar_result"] = int(bool(out.scalar))
            e["probe_scalar"] = int(not rgb)
        except Exception as ex:  # noqa
            e["raised"] = 1
            e["error"] = repr(ex)[:200]
    return evs


def run(ck, replay=None):
    ck.sany("MC_ConcPipeline", "Trace_ConcPipeline")
    r = ck.model_check("MC_ConcPipeline", "MC_ConcPipeline.cfg", workers=1)
    scn = [(p[1], p[2]) for p in r.printed("SCN")]
    darsia = import_darsia()
    rng = random.Random(ck.seed)
    quick = ck.tier == "quick"
    # two analyses of one image shape with their own baselines / cleaning filters, set up and called along every interleaving
    # of spec/TwoObjects.tla: each cleans with ITS filter and subtracts ITS baseline
    from lib import twoobj
    thists = twoobj.histories(ck)
    tspecs = []
    for rgb_ in (False, True):
        shp = (3, 4, 3) if rgb_ else (3, 4)

        def timg(a, rgb_=rgb_):
            return darsia.Image(a.copy(), space_dim=2, dimensions=[1.0, 1.0], scalar=not rgb_)

        def make(o, shp=shp, timg=timg):
            rs = np.random.RandomState(3 if o == "a" else 4)
            with warnings.catch_warnings():
                warnings.simplefilter("ignore")
                return darsia.ConcentrationAnalysis(base=[timg(rs.rand(*shp)) for _ in range(3)], **{"diff option": "plain"})

        def use(o, ca, shp=shp, timg=timg):
            with warnings.catch_warnings():
                warnings.simplefilter("ignore")
                return np.asarray(ca(timg(np.random.RandomState(9).rand(*shp))).img, dtype=float)

        sel = thists if not quick else [h for h in thists if len(h) <= 4]
        tspecs.append((sel, "analysis-" + ("rgb" if rgb_ else "scalar"), make, use, lambda x, y: x.shape == y.shape and np.allclose(x, y, rtol=1e-9, atol=1e-12), "twin:" + ("rgb" if rgb_ else "scalar")))
    ck.cov["twin_object_histories"] = twoobj.run(ck, "C13", tspecs)
    # one analysis called again after calls it rejected (spec/FailedCalls.tla): the baseline / cleaning filter / stages it
    # applies afterwards are those of an analysis that never saw the rejected input
    from lib import failedcalls
    fhists = failedcalls.histories(ck)
    fspecs = []
    for (_, kind, make, use, same, tid) in list(tspecs):
        shp = (3, 4, 3) if kind.endswith("rgb") else (3, 4)
        bads = [lambda: None, lambda: "not an image", lambda: np.zeros(shp),
                lambda shp=shp: darsia.Image(np.zeros((5, 7) + shp[2:]), space_dim=2, dimensions=[1.0, 1.0], scalar=len(shp) == 2)]
        for bi, bad in enumerate(bads):
            def fmisuse(ca, bad=bad):
                with warnings.catch_warnings():
                    warnings.simplefilter("ignore")
                    return ca(bad())
            fspecs.append((fhists, f"{kind}-bad{bi}", lambda make=make: make("a"), lambda ca, use=use: use("a", ca), fmisuse, same, f"failed:{kind}:{bi}"))
    ck.cov["failed_call_histories"] = failedcalls.run(ck, "C13", fspecs)
    if replay:
        cases = [tuple(c["case"]) for c in json.load(open(replay))["cases"]]
    else:
        sel = scn if not quick else rng.sample(scn, 90)
        cases = []
        for cfg, nextra in sel:
            rgb = rng.random() < 0.5
            nonlinear = cfg["res"] == 1 or cfg["mod"] == 1
            dtype = rng.choice(["float64", "float32"] if nonlinear else ["float64", "float32", "uint8", "uint16"])
            cases.append((cfg, nextra, rgb, dtype, [rng.randint(1, 4), rng.randint(1, 4)], rng.random() < 0.2))
        # every pixel type through every route that sets a baseline or a cleaning filter (constructor, update(base=...),
        # find_cleaning_filter), for colour and scalar images: linear configurations without / with extra baselines
        lin = [c_ for c_ in scn if c_[0]["res"] == 0 and c_[0]["mod"] == 0]
        for dt_ in ("uint8", "uint16", "float32", "float64"):
            for rgb_ in (False, True):
                for nx_ in (0, 2):
                    pool_ = [c_ for c_ in lin if c_[1] == nx_]
                    cfg_, _ = pool_[(len(cases)) % len(pool_)]
                    cases.append((cfg_, nx_, rgb_, dt_, [2, 3], False))
    events, info = [], {}
    for i, c in enumerate(cases):
        tid = f"r{i}"
        evs = run_case(darsia, rng, tid, c[0], c[1], c[2], c[3], c[4], c[5])
        for e in evs:
            info[e["tid"]] = c
        events += evs
    bad = ck.validate("Trace_ConcPipeline", "Trace.cfg", events, chunk=200)
    for b in bad:
        c = info[b["tid"]]
        cfg = c[0]
        sig = f"C13:{b['clause']}:{cfg['diff']}:" + ("rgb" if c[2] else "scalar") + ":" + ("intdtype" if c[3].startswith("uint") else "float")
        ck.violation(sig, f"concentration analysis violates {b['clause']}", {"case": list(c), "error": b["event"].get("error")})
    ck.cov["evaluations"] = len(events)
    ck.cov["distinct_nontrivial"] = len({json.dumps(c[0], sort_keys=True) + str(c[1]) for c in cases if sum(c[0][k] for k in ("red", "bal", "res", "mod")) >= 2})
    ck.cov["rule"] = "configurations enumerated by TLC (512: stage subsets x order x diff option x 0..3 extra baselines), each run with injected recording stages on seeded integer-valued images (RGB/scalar, float and integer dtypes); non-trivial = at least two stages present"
    ck.cov["exhaustive"] = not quick
    ck.cov["samples"] = [{"cfg": cases[0][0], "nextra": cases[0][1], "rgb": cases[0][2], "dtype": cases[0][3]}, {k: v for k, v in events[0].items() if k in ("calls", "result", "probe")}]
    ck.assumptions += ["stages are injected through the constructor (zero-preserving, non-commuting integer maps); integer dtypes only with linear stages (values compared after rescaling by the dtype range)"]
