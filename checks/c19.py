"""C19 — patching tiles an image exactly."""
import io
import json
import random
import contextlib

import numpy as np

from lib.core import import_darsia
from checks.common import build_image, to_lattice, gammas

LEVEL = "model_checking"
TABLE2 = [(2, -1), (1, 1)]  # overwritten by the specification's table at run time


def patch_event(darsia, rng, n, k, relp, relq, h, omode, colour, tid):
    kind = "vector" if colour else "scalar"
    img, o, arr = build_image(darsia, rng, tuple(n), h, omode, kind, TABLE2)
    tagarr = arr[..., 0] // 3 if colour else arr  # voxel tag = C rank
    base = {"tid": tid, "n": list(n), "k": list(k), "relp": relp, "relq": relq}
    try:
        with contextlib.redirect_stdout(io.StringIO()):
            P = darsia.Patches(img, list(k), rel_overlap=relp / relq)
            asm = P.assemble()
        shapes = [[list(P(i, j).img.shape[:2]) for j in range(k[1])] for i in range(k[0])]
        if any(0 in s for row in shapes for s in row):
            raise ValueError("empty patch")
    except Exception as ex:
        return dict(base, op="unbuildable", error=repr(ex)[:120])

    def lat(x, unit=4):
        return to_lattice(x, o, TABLE2, h, unit)

    def sl(s):
        return [int(s[0].start), int(s[0].stop), int(s[1].start), int(s[1].stop)]

    e = dict(base, op="patches", colour=int(colour))
    e["pv"] = [int(x) for x in P.pv]
    e["ov"] = [int(x) for x in P.ov]
    e["roi"] = [[sl(P.rois[i][j]) for j in range(k[1])] for i in range(k[0])]
    e["rel"] = [[sl(P.relative_rois_without_overlap[i][j]) for j in range(k[1])] for i in range(k[0])]
    e["pshape"] = shapes
    def tag(p, idx):
        a = p.img[idx]
        return int(a[0] // 3) if colour else int(a)
    e["ptl"] = [[tag(P(i, j), (0, 0)) for j in range(k[1])] for i in range(k[0])]
    e["pbr"] = [[tag(P(i, j), (-1, -1)) for j in range(k[1])] for i in range(k[0])]
    e["porigin"] = [[lat(P(i, j).origin)[0] for j in range(k[1])] for i in range(k[0])]
    e["pdims"] = [[[int(round(4 * P(i, j).dimensions[a] / h[a])) if abs(4 * P(i, j).dimensions[a] / h[a] - round(4 * P(i, j).dimensions[a] / h[a])) < 1e-6 * (1 + 4 * n[a]) else 99999999
                    for a in range(2)] for j in range(k[1])] for i in range(k[0])]
    # full data check of every patch against the base block it advertises through its ROI (tags)
    same = True
    for i in range(k[0]):
        for j in range(k[1]):
            r = P.rois[i][j]
            same = same and np.array_equal(P(i, j).img, img.img[r])
    if not same:
        e["ptl"][0][0] = -1
    # re-assembly: same pixels and pixel type, placed exactly where the base image is (lattice position, not allclose: the
    # "far" origins are 1e6 voxel sizes away)
    e["assembled"] = int(asm.img.shape == img.img.shape and asm.img.dtype == img.img.dtype and np.array_equal(asm.img, img.img)
                         and lat(asm.origin) == lat(img.origin) and np.allclose(asm.dimensions, img.dimensions, rtol=1e-12, atol=0))
    # ... whatever the image shows: a black block that covers whole patch interiors (with bright patches to its right / below),
    # a boolean mask, a constant image, an image with a single bright voxel
    e["assembled_patterns"] = 1
    try:
        pats = []
        base_ = np.asarray(img.img, dtype=float)
        z = base_.copy()
        z[: max(1, (2 * n[0]) // max(2, k[0])), : max(1, n[1] // max(1, k[1]))] = 0
        pats.append(z)
        z2 = base_.copy()
        z2[..., : max(1, n[1] // 2)] = 0 if not colour else z2[..., : max(1, n[1] // 2)] * 0
        pats.append(z2)
        pats.append((np.arange(base_.size).reshape(base_.shape) % 3 == 0))
        pats.append(np.full(base_.shape, 7.0))
        one = np.zeros(base_.shape)
        one[tuple(-1 for _ in base_.shape)] = 5.0
        pats.append(one)
        for a_ in pats:
            im_ = type(img)(a_.copy(), **{k_: v_ for k_, v_ in img.metadata().items()})
            with contextlib.redirect_stdout(io.StringIO()):
                asm_ = darsia.Patches(im_, list(k), rel_overlap=relp / relq).assemble()
            if not (asm_.img.shape == a_.shape and np.array_equal(asm_.img, a_)):
                e["assembled_patterns"] = 0
    except Exception as ex:  # noqa
        e["assembled_patterns"] = -1
        e["pattern_error"] = repr(ex)[:120]
    # the second way of putting patches together: blending with partition-of-unity weights over the overlaps
    try:
        with contextlib.redirect_stdout(io.StringIO()):
            bl = P.blend_and_assemble()
        e["blend"] = int(bl.img.shape == img.img.shape and np.allclose(np.asarray(bl.img, dtype=float), np.asarray(img.img, dtype=float), rtol=1e-9, atol=1e-9))
    except Exception as ex:  # noqa
        e["blend"] = -1
        e["blend_error"] = repr(ex)[:120]
    # one patch is replaced (set_image with an array of the patch's pixel type, as after processing it) and everything is put
    # together again: the other patches and the base image are what they were, and the re-assembled image carries the new
    # patch's interior in its region and the base image everywhere else
    e["update"] = 1
    try:
        basecopy = img.img.copy()
        before = [[P(i, j).img.copy() for j in range(k[1])] for i in range(k[0])]
        ui, uj = rng.randrange(k[0]), rng.randrange(k[1])
        new = (before[ui][uj] + 1000).astype(before[ui][uj].dtype)
        newcopy = new.copy()
        with contextlib.redirect_stdout(io.StringIO()):
            P.set_image(new, ui, uj)
            asm2 = P.assemble()
        expect = basecopy.copy()
        r, rr = P.rois[ui][uj], P.relative_rois_without_overlap[ui][uj]
        inner = (slice(r[0].start + rr[0].start, r[0].start + rr[0].stop), slice(r[1].start + rr[1].start, r[1].start + rr[1].stop))
        expect[inner] = newcopy[rr]
        ok = np.array_equal(img.img, basecopy) and np.array_equal(new, newcopy) and np.array_equal(P(ui, uj).img, newcopy)
        ok = ok and all(np.array_equal(P(i, j).img, before[i][j]) for i in range(k[0]) for j in range(k[1]) if (i, j) != (ui, uj))
        ok = ok and asm2.img.shape == expect.shape and np.array_equal(asm2.img, expect)
        e["update"] = int(ok)
    except Exception as ex:  # noqa
        e["update"] = -1
        e["update_error"] = repr(ex)[:120]
    e["cv"] = np.asarray(P.global_corners_voxels).astype(int).tolist()
    e["lcv"] = np.asarray(P.local_corners_voxels).astype(int).tolist()      # corners of each patch relative to its own top-left corner
    e["cx"] = [[lat(P.global_corners_cartesian[i][j]) for j in range(k[1])] for i in range(k[0])]
    e["ctr_x"] = [[lat(P.global_centers_cartesian[i][j], 8)[0] for j in range(k[1])] for i in range(k[0])]
    e["ctr_v"] = np.asarray(P.global_centers_voxels).astype(int).tolist()
    return e


def run(ck, replay=None):
    global TABLE2
    ck.sany("MC_Patches", "Trace_Patches", "MC_Coords")
    r = ck.model_check("MC_Patches", f"MC_Patches_{ck.tier}.cfg", workers=4)
    if ck.tier == "thorough":
        # the tiling / region-of-interest lemma for ALL n, k, overlap (Apalache, integer SMT), with its vacuity guard
        if ck.apalache("MC_PatchesLemmaU", "Lemma", cinit="CInit"):
            ck.apalache("MC_PatchesLemmaU", "NonEmpty", init="InitNoPre", cinit="CInit", expect_error=True)
    axis_scn = [(p[1], p[2], tuple(p[3]), p[4]) for p in r.printed("SCN")]
    r2 = ck.tlc("MC_Axes", "MC_Axes.cfg", workers=1, label="axis-table")
    TABLE2 = [tuple(t) for p in r2.printed("SCN") if len(p[1]) == 2 for t in p[2]][:2]
    darsia = import_darsia()
    rng = random.Random(ck.seed)
    quick = ck.tier == "quick"
    # patch layouts of two images that agree in patch count, patch size in voxels and overlap but not in extent (at least one
    # of them not divisible by the patch count), along every interleaving of spec/TwoObjects.tla
    from lib import twoobj
    hists = twoobj.histories(ck)
    ntwin = 0
    tspecs = []
    for (na, nb, k, rel) in (((10, 13), (11, 13), [3, 4], 0.0), ((12, 16), (11, 14), [3, 4], 0.25), ((5, 6), (6, 6), [2, 2], 0.0)):
        def make(o, na=na, nb=nb, k=k, rel=rel):
            n = na if o == "a" else nb
            img = darsia.Image(np.arange(float(n[0] * n[1])).reshape(n), space_dim=2, dimensions=[0.5 * n[0], 0.25 * n[1]], scalar=True)
            with contextlib.redirect_stdout(io.StringIO()):
                return (img, darsia.Patches(img, list(k), rel_overlap=rel))

        def use(o, obj, k=k):
            img, P = obj
            with contextlib.redirect_stdout(io.StringIO()):
                asm = P.assemble()
            sl = lambda t: [int(t[0].start), int(t[0].stop), int(t[1].start), int(t[1].stop)]  # noqa: E731
            return json.dumps({"rois": [[sl(P.rois[i][j]) for j in range(k[1])] for i in range(k[0])],
                               "rel": [[sl(P.relative_rois_without_overlap[i][j]) for j in range(k[1])] for i in range(k[0])],
                               "cv": np.asarray(P.global_corners_voxels).astype(int).tolist(), "lcv": np.asarray(P.local_corners_voxels).astype(int).tolist(),
                               "asm": bool(np.array_equal(asm.img, img.img)), "shapes": [[list(P(i, j).img.shape) for j in range(k[1])] for i in range(k[0])]})

        sel = hists if not quick else [h for h in hists if len(h) <= 4]
        tspecs.append((sel, f"patches-{na[0]}x{na[1]}-{nb[0]}x{nb[1]}", make, use, lambda x, y: x == y, f"twin:{na[0]}x{na[1]}"))
    ntwin = twoobj.run(ck, "C19", tspecs)
    by_rel = {}
    for (n, k, rel, b) in axis_scn:
        by_rel.setdefault(rel, []).append((n, k, b))
    cases = []
    if replay:
        for c in json.load(open(replay))["cases"]:
            cases.append((c["n"], c["k"], c["relp"], c["relq"], c["h"], c["omode"], c["colour"]))
    else:
        for rel, lst in sorted(by_rel.items()):
            m = 40 if quick else 700
            for _ in range(m):
                a, b = rng.choice(lst), rng.choice(lst)
                h, om = rng.choice(gammas(rng, 2, 6))
                cases.append(([a[0], b[0]], [a[1], b[1]], rel[0], rel[1], h, om, rng.random() < 0.3))
        # divisible extents with inexact voxel sizes (round-off in length / voxel_size)
        for n, k, h in [((2, 18), (2, 6), [5.2749881768015765, 1366.3071195600583]), ((18, 20), (6, 5), [0.02307451756169778, 8.505266730807763]),
                        ((15, 14), (5, 5), [0.3 / 7, 1.0]), ((12, 9), (4, 3), [0.1, 0.7]), ((20, 30), (5, 6), [1e-4 / 3, 1e4 / 3])]:
            cases.append((list(n), list(k), 0, 1, h, "far", False))
            cases.append((list(n), list(k), 1, 2, h, "default", True))
        # voxel sizes of unusual magnitude (nanometres; tens of thousands of kilometres with an inexact quotient), divisible extents
        for n, k in [((9, 18), (3, 6)), ((12, 9), (4, 3)), ((8, 10), (2, 5))]:
            for h in ([1e-9 / n[0], 2e-9 / n[1]], [8e7 / n[0], 1.6e8 / n[1]], [3e-10, 7e-10], [5e6 / 3, 7e6 / 3]):
                cases.append((list(n), list(k), 0, 1, list(h), "default", False))
                cases.append((list(n), list(k), 1, 4, list(h), "user", False))
        # boundary: the documented example sizes and non-divisible small cases
        for n, k in [((5, 7), (2, 3)), ((12, 12), (6, 6)), ((7, 7), (6, 6)), ((1, 1), (1, 1)), ((9, 10), (4, 3))]:
            cases.append((list(n), list(k), 0, 1, [1.0, 1.0], "default", False))
            cases.append((list(n), list(k), 1, 4, [0.1, 0.3 / 7], "user", True))
    events, info = [], {}
    for i, c in enumerate(cases):
        tid = f"p{i}"
        info[tid] = dict(n=c[0], k=c[1], relp=c[2], relq=c[3], h=c[4], omode=c[5], colour=c[6])
        events.append(patch_event(darsia, rng, c[0], c[1], c[2], c[3], c[4], c[5], c[6], tid))
    bad = ck.validate("Trace_Patches", "Trace.cfg", events, weight=lambda e: 1 + e["k"][0] * e["k"][1], budget=3000)
    for b in bad:
        e = b["event"]
        div = "divisible" if all(e["n"][a] % e["k"][a] == 0 for a in range(2)) else "nondivisible"
        ck.violation(f"C19:{b['clause']}:{div}", f"Patches violates {b['clause']} ({div} extents)", info[b["tid"]])
    built = [e for e in events if e["op"] == "patches"]
    ck.cov["twin_object_histories"] = ntwin
    ck.cov["evaluations"] = len(events)
    ck.cov["distinct_nontrivial"] = len({(tuple(e["n"]), tuple(e["k"]), e["relp"], e["relq"]) for e in built if e["k"] != [1, 1]})
    ck.cov["rule"] = "per-axis (extent, count, overlap) triples enumerated by TLC (MC_Patches) are paired into seeded 2-D scenarios with float concretisations; non-trivial = built patches with more than one patch"
    ck.cov["axis_scenarios"] = len(axis_scn)
    ck.cov["samples"] = [info["p0"], {k: built[0][k] for k in ("n", "k", "pv", "ov", "roi")}]
    ck.assumptions += ["tags: arange payload; physical positions mapped to the quarter-voxel lattice with the harness' voxel sizes"]
