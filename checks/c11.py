"""C11 — resampling and axis reduction conserve integrals."""
import json
import random
import warnings

import numpy as np

from lib.core import MachineryError, import_darsia
from checks.wcommon import exponent

LEVEL = "model_checking"
BAD = 99999999


RROUTE = [0]
SPAT = [-1]
SMAG = [-1]


def make_resize(darsia, tgt, cons):
    """The same resizer reached by the routes the constructor offers, taken in turn: arguments, plain option keys, option
    keys under a prefix (as when the options come from a larger configuration addressed by a key)."""
    RROUTE[0] += 1
    r = RROUTE[0] % 4
    if r == 0:
        return darsia.Resize(shape=tgt, interpolation="inter_area", **{"resize conservative": cons})
    if r == 1:
        return darsia.Resize(**{"resize shape": tuple(tgt), "resize interpolation": "inter_area", "resize conservative": cons})
    if r == 2:
        return darsia.Resize(key="restoration ", **{"restoration resize shape": tuple(tgt), "restoration resize interpolation": "inter_area",
                                                    "restoration resize conservative": cons, "resize conservative": not cons})
    return darsia.Resize(None, tuple(tgt), None, None, "inter_area", **{"resize conservative": cons})


def ints(a, scale=1.0, tol=1e-5):
    a = np.asarray(a, dtype=float).ravel() * scale
    r = np.round(a)
    ok = np.abs(a - r) <= tol * (1 + np.abs(r))
    r = r.astype(np.int64)
    r[~ok] = BAD
    return r.tolist()


def image(darsia, arr, h, kind="scalar", origin=None):
    n = 2 if kind != "3d" else 3
    shape = arr.shape[:n]
    kw = dict(space_dim=n, dimensions=[h[a] * shape[a] for a in range(n)], scalar=(arr.ndim == n or kind == "series"))
    if kind == "series":
        kw.update(series=True, time=[float(t) for t in range(arr.shape[n])])
    if origin is not None:
        kw["origin"] = origin
    return darsia.Image(arr, **kw)


def dims_kept(a, b):
    return int(np.allclose(a.dimensions, b.dimensions) and np.allclose(np.asarray(a.origin), np.asarray(b.origin)))


def integral(img):
    vol = float(np.prod(img.voxel_size))
    return float(np.sum(np.asarray(img.img, dtype=float))) * vol


def rand_arr(rng, shape, dtype):
    return np.array([rng.randint(0, 9) for _ in range(int(np.prod(shape)))], dtype=dtype).reshape(shape)


def events(darsia, rng, shapes, quick, arrangements):
    ev = []
    dtypes = ["float64", "float32"]
    # uniform refinement / coarsening
    for s in shapes:
        for lev in ([1, 2] + ([3] if max(s) <= 3 else []) if quick else [1, 2, 3]):     # (the largest level on the small shapes also in the quick tier)
            dt = rng.choice(dtypes)
            a = rand_arr(rng, s, dt)
            img = image(darsia, a, [0.5, 0.25])
            f = 2 ** lev
            fine = darsia.uniform_refinement(img, lev)
            back = darsia.uniform_refinement(fine, -lev)
            ev.append({"tid": f"refine:{s}:{lev}", "op": "refine", "shape": list(s), "f": f, "data": ints(a), "rshape": list(fine.img.shape), "res": ints(fine.img),
                       "back": ints(back.img), "dims_kept": dims_kept(img, fine) & dims_kept(img, back)})
            if all(x % f == 0 for x in s):
                co = darsia.uniform_refinement(img, -lev)
                ev.append({"tid": f"coarsen:{s}:{lev}", "op": "coarsen", "shape": list(s), "f": f, "data": ints(a), "res": ints(co.img, f ** 2), "dims_kept": dims_kept(img, co)})
            else:
                # extents that are not multiples of 2^lev, every level: general data (integral) and a constant field, which
                # has to stay that constant on ceil(n / 2^lev) voxels over the same extent
                for const in (0, 1):
                    b = np.full(s, float(rng.randint(1, 5))) if const else a
                    imgb = image(darsia, b, [0.5, 0.25])
                    e = {"tid": f"coarsen_odd:{s}:{lev}:{const}", "op": "coarsen_odd", "shape": list(s), "lev": lev, "constant": const, "raised": 0,
                         "intexp": 3, "dims_kept": 0, "rshape": [], "const_kept": 0}
                    try:
                        co = darsia.uniform_refinement(imgb, -lev)
                        rel = abs(integral(co) - integral(imgb)) / max(1e-300, abs(integral(imgb)))
                        e.update(intexp=exponent(rel), dims_kept=dims_kept(imgb, co), rshape=list(co.img.shape),
                                 const_kept=int(bool(np.all(co.img == b.flat[0]))) if const else 1)
                    except Exception as ex:  # noqa
                        e["raised"] = 1
                        e["error"] = repr(ex)[:160]
                    ev.append(e)
    # a 3-D and a series / vector payload for refinement
    for kind, shp in [("3d", (2, 2, 2)), ("series", (2, 2, 3)), ("vector", (2, 4, 3))]:
        a = rand_arr(rng, shp, "float64")
        img = image(darsia, a, [0.5, 0.25, 1.0], kind)
        n = 3 if kind == "3d" else 2
        fine = darsia.uniform_refinement(img, 1)
        back = darsia.uniform_refinement(fine, -1)
        exp = a
        for ax in range(n):
            exp = np.repeat(exp, 2, axis=ax)
        ok = fine.img.shape == exp.shape and np.array_equal(fine.img, exp) and np.array_equal(back.img, a)
        ev.append({"tid": f"refine-{kind}", "op": "refine", "shape": [1], "f": 1, "data": [int(ok)], "rshape": [1], "res": [int(ok)], "back": [1], "dims_kept": dims_kept(img, fine) if ok else 0})
    # area resize by integer factors (conservative: sum, plain: mean), and generic down-sampling
    for s in shapes:
        for _ in range(1 if quick else 3):
            dt = rng.choice(dtypes)
            a = rand_arr(rng, s, dt)
            img = image(darsia, a, [1.0, 0.5])
            divs = [[d for d in (1, 2, 3) if x % d == 0] for x in s]
            k = [rng.choice(divs[0]), rng.choice(divs[1])]
            tgt = (s[0] // k[0], s[1] // k[1])
            cons = rng.random() < 0.5
            with warnings.catch_warnings():
                warnings.simplefilter("ignore")
                rz = make_resize(darsia, tgt, cons)
                out = rz(img if rng.random() < 0.7 else a)
            res = out.img if isinstance(out, darsia.Image) else out
            ev.append({"tid": f"area-down:{s}:{k}:{int(cons)}", "op": "area", "down": 1, "shape": list(s), "k": k, "data": ints(a), "conservative": int(cons),
                       "res": ints(res, 1 if cons else k[0] * k[1]), "dims_kept": dims_kept(img, out) if isinstance(out, darsia.Image) else 1})
            ku = [rng.choice([1, 2, 3]), rng.choice([1, 2])]
            tgt = (s[0] * ku[0], s[1] * ku[1])
            with warnings.catch_warnings():
                warnings.simplefilter("ignore")
                out = make_resize(darsia, tgt, cons)(img)
            ev.append({"tid": f"area-up:{s}:{ku}:{int(cons)}", "op": "area", "down": 0, "shape": list(s), "k": ku, "data": ints(a), "conservative": int(cons),
                       "res": ints(out.img, ku[0] * ku[1] if cons else 1), "dims_kept": dims_kept(img, out)})
    # generic down-sampling; one Resize object (fixed target shape) serves several inputs of different resolutions, as in
    # a processing pipeline - every application has to conserve, not only the first
    i = 0
    for g in range(5 if quick else 80):
        tgt = (rng.randint(1, 5), rng.randint(1, 5))
        cons = rng.random() < 0.5
        with warnings.catch_warnings():
            warnings.simplefilter("ignore")
            rz = make_resize(darsia, tgt, cons)
        for _ in range(rng.randint(2, 3)):
            s = (rng.randint(tgt[0], 9), rng.randint(tgt[1], 9))
            kind = rng.choice(["scalar", "vector", "series"])
            shp = s + ({"scalar": (), "vector": (3,), "series": (2,)}[kind])
            a = rand_arr(rng, shp, rng.choice(dtypes)) + 1
            img = image(darsia, a, [1.0, 1.0], kind)
            a_before = a.copy()
            with warnings.catch_warnings():
                warnings.simplefilter("ignore")
                # the same target through the other entry points: a reference image of the target shape, the function wrapper
                how = "object" if cons else rng.choice(["object", "ref_image", "function", "function_ref"])
                if how == "object":
                    out = rz(img)
                else:
                    ref = image(darsia, np.zeros(tgt), [1.0, 1.0], "scalar")
                    if how == "ref_image":
                        out = darsia.Resize(ref_image=ref, interpolation="inter_area")(img)
                    elif how == "function":
                        out = darsia.resize(img, shape=tgt, interpolation="inter_area")
                    else:
                        out = darsia.resize(img, ref_image=ref, interpolation="inter_area")
            if not (np.array_equal(img.img, a_before) and img.img.dtype == a_before.dtype):
                ev.append({"tid": f"resize-input:{i}", "op": "input", "what": "resize", "unchanged": 0})
            if cons:
                rel = abs(float(out.img.sum()) - float(a.sum())) / float(a.sum())
            else:
                rel = abs(integral(out) - integral(img)) / integral(img)
            ev.append({"tid": f"resize:{i}", "op": "resize_generic", "shape": list(s), "target": list(tgt), "conservative": int(cons), "consexp": exponent(rel), "dims_kept": dims_kept(img, out)})
            i += 1
    # equalize_voxel_size: unifies the voxel side lengths and keeps the physical dimensions
    for j in range(3 if quick else 20):
        s2 = (rng.randint(2, 6), rng.randint(2, 6))
        hh = [rng.choice([0.5, 0.25, 1.0]), rng.choice([0.5, 0.25, 1.0])]
        a = rand_arr(rng, s2, "float64") + 1
        img = image(darsia, a, hh)
        a_before = a.copy()
        with warnings.catch_warnings():
            warnings.simplefilter("ignore")
            out = darsia.equalize_voxel_size(img)
        vs = [float(x) for x in out.voxel_size]
        ev.append({"tid": f"equalize:{j}", "op": "equalize", "dims_kept": dims_kept(img, out), "uniform": int(abs(vs[0] - vs[1]) <= 1e-12 * max(vs)),
                   "side_is_min": int(abs(vs[0] - min(hh)) <= 1e-12)})
        if not np.array_equal(img.img, a_before):
            ev.append({"tid": f"equalize-input:{j}", "op": "input", "what": "equalize_voxel_size", "unchanged": 0})
    # axis reduction by index and by Cartesian name
    for dim, shp in [(2, (2, 3)), (2, (3, 1)), (3, (2, 3, 2)), (3, (1, 2, 3))]:
        a = rand_arr(rng, shp, "float64")
        # a user-specified origin with different components (a sub-volume, a georeferenced image)
        img = image(darsia, a, [0.5, 0.25, 2.0][:dim], "3d" if dim == 3 else "scalar", origin=[3.0, 7.5, -2.0][:dim])
        placed = {}
        for ax in range(dim):
            name = {2: {0: "y", 1: "x"}, 3: {0: "z", 1: "x", 2: "y"}}[dim][ax]
            for axis_arg in (ax, name):
                for mode in ("sum", "average"):
                    e = {"tid": f"reduce:{shp}:{axis_arg}:{mode}", "op": "reduce", "shape": list(shp), "ax": ax + 1, "mode": mode, "data": ints(a), "raised": 0, "res": [], "dims_kept": 0}
                    try:
                        out = darsia.reduce_axis(img, axis_arg, mode=mode)
                        e["res"] = ints(out.img, shp[ax] if mode == "average" else 1)
                        keep = [d for i_, d in enumerate(img.dimensions) if i_ != ax]
                        e["dims_kept"] = int(np.allclose(out.dimensions, keep) and out.space_dim == dim - 1)
                        # the retained axes keep their place: addressing the axis by matrix index or by its Cartesian name puts
                        # the reduced image at the same position
                        place = [float(x) for x in np.asarray(out.origin, dtype=float)]
                        if (ax, mode) in placed and not np.allclose(placed[(ax, mode)], place, rtol=0, atol=1e-12):
                            e["dims_kept"] = 0
                        placed.setdefault((ax, mode), place)
                    except Exception as ex:  # noqa
                        e["raised"] = 1
                        e["error"] = repr(ex)[:160]
                    ev.append(e)
    # extrusion
    for i in range(3 if quick else 20):
        s = (rng.randint(1, 4), rng.randint(1, 4))
        a = rand_arr(rng, s, "float64")
        img = image(darsia, a, [0.5, 0.25])
        num, height = rng.randint(1, 4), rng.choice([1.0, 0.5, 3.0])
        out = darsia.extrude_along_axis(img, height, num)
        ratio = integral(out) / (integral(img) * height) if integral(img) > 0 else 1.0
        ev.append({"tid": f"extrude:{i}", "op": "extrude", "shape": list(s), "num": num, "data": ints(a), "res": ints(out.img), "intratio": int(round(1e6 * ratio)),
                   "dims_kept": int(np.allclose(out.dimensions[1:], img.dimensions) and abs(out.dimensions[0] - height) < 1e-12)})
    # superposition on a common voxel grid: the arrangement along one image axis is one of the TLC-enumerated ones
    # (MC_Superpose: every list of up to three intervals, so a later image may overhang the earlier ones on both
    # sides), the other axis takes a second enumerated arrangement of the same length
    by_len = {}
    for a in arrangements:
        by_len.setdefault(len(a), []).append(a)
    sel = []
    for n, lst in sorted(by_len.items()):
        sel += lst if (not quick or n <= 2) else rng.sample(lst, min(len(lst), 70))
    for i, arr in enumerate(sel):
        n = len(arr)
        other = rng.choice(by_len[n])
        ax = i % 2
        h = rng.choice([[1.0, 1.0], [0.5, 0.25], [2.0, 0.5]])
        # (magnitudes in turn: ordinary; the images a million voxel sizes away from zero; sub-nanometre voxels; inexact voxel sizes)
        SMAG[0] += 1
        base_xy = [10.0, 20.0]
        hclass = "dyadic"
        if SMAG[0] % 4 == 1:
            base_xy = [1e6 * h[1], 2e6 * h[0]]
        elif SMAG[0] % 4 == 2:
            h = [x * 2.0 ** -30 for x in h]            # (a power of two: positions stay exactly representable)
            base_xy = [10.0 * h[1], 20.0 * h[0]]
        elif SMAG[0] % 4 == 3:
            # voxel sizes that are not dyadic fractions (0.1, 0.3, 3/70): quotients of lengths carry round-off
            h = rng.choice([[0.1, 0.3], [0.3 / 7, 0.9], [0.7, 0.1]])
            hclass = "inexact-voxel-size"
        same = all(tuple(x) == tuple(arr[0]) for x in arr) and rng.random() < 0.5
        imgs, recs, offs = [], [], []
        for j in range(n):
            o_l = [arr[j], arr[j] if same else other[j]]
            if ax == 1:
                o_l = o_l[::-1]
            off = [o_l[0][0], o_l[1][0]]
            shp = (o_l[0][1], o_l[1][1])
            a = rand_arr(rng, shp, "float64")
            # (the values of the images by turns: generic; a sink - non-positive with exact zeros; all zero; signed)
            SPAT[0] += 1
            if SPAT[0] % 4 == 1:
                a = -np.abs(a) * (np.arange(a.size).reshape(a.shape) % 2)
            elif SPAT[0] % 4 == 2:
                a = np.zeros_like(a)
            elif SPAT[0] % 4 == 3:
                a = a - 4.0
            # voxel (0,0) of image j sits at canvas voxel off: origin shifted by off * h (rows go down: y decreases)
            origin = [base_xy[0] + off[1] * h[1], base_xy[1] - off[0] * h[0]]
            imgs.append(image(darsia, a, h, origin=origin))
            recs.append({"shape": list(shp), "off": off, "data": ints(a)})
            offs.append(off)
        cshape = [max(r["off"][0] + r["shape"][0] for r in recs), max(r["off"][1] + r["shape"][1] for r in recs)]
        low = [min(o[0] for o in offs), min(o[1] for o in offs)]
        e = {"tid": f"superpose:{i}", "op": "superpose", "imgs": recs, "cshape": cshape, "raised": 0, "res": [], "rshape": [], "dims_kept": 0, "n": n, "hclass": hclass,
             "samegrid": int(all(o == offs[0] for o in offs) and len({tuple(r["shape"]) for r in recs}) == 1)}
        if low != [0, 0]:
            # the arrangement of the second axis need not touch the low end: shift the records (the canvas starts at the lowest image)
            for r in recs:
                r["off"] = [r["off"][0] - low[0], r["off"][1] - low[1]]
            e["cshape"] = cshape = [cshape[0] - low[0], cshape[1] - low[1]]
        try:
            with warnings.catch_warnings():
                warnings.simplefilter("ignore")
                out = darsia.superpose(imgs)
            e["res"] = ints(out.img)
            e["rshape"] = list(out.img.shape)
            # (placement judged in voxel sizes, whatever their magnitude)
            e["dims_kept"] = int(np.allclose(np.asarray(out.dimensions) / np.asarray(h), [cshape[0], cshape[1]], rtol=0, atol=1e-6)
                                 and np.allclose((np.asarray(out.origin) - np.asarray([base_xy[0] + low[1] * h[1], base_xy[1] - low[0] * h[0]])) / np.asarray([h[1], h[0]]),
                                                 0.0, rtol=0, atol=1e-6))
        except Exception as ex:  # noqa
            e["raised"] = 1
            e["error"] = repr(ex)[:160]
        ev.append(e)
    return ev


def run(ck, replay=None):
    ck.sany("MC_Resample", "Trace_Resample")
    r = ck.model_check("MC_Resample", "MC_Resample.cfg", workers=4)
    shapes = sorted({tuple(p[1]) for p in r.printed("SCN")})
    ck.sany("MC_Superpose")
    rs = ck.model_check("MC_Superpose", "MC_Superpose.cfg", workers=1)
    arrangements = [[tuple(x) for x in p[1]] for p in rs.printed("SUP")]
    if not any(len(a) >= 2 and any(a[k][0] < min(x[0] for x in a[:k]) and a[k][0] + a[k][1] > max(x[0] + x[1] for x in a[:k]) for k in range(1, len(a)))
               for a in arrangements):
        raise MachineryError("no enumerated arrangement has a later image overhanging the earlier ones on both sides (vacuity guard)")
    reg = ck.tlc("MC_Superpose", "MC_Superpose_mutant.cfg", workers=1, expect_ok=False, label="regression-model")
    if "ImplCanvasIsBounding" not in reg.violated:
        raise MachineryError("Superpose model no longer rejects the one-end-per-image bounding box (vacuity guard)")
    darsia = import_darsia()
    from checks.common import axis_twins
    ck.cov["twin_object_histories"] = axis_twins(ck, darsia, "C11", ck.tier == "quick")
    rng = random.Random(ck.seed)
    quick = ck.tier == "quick"
    shapes = shapes + [(5, 3), (6, 6), (3, 5)] + ([] if quick else [(rng.randint(1, 8), rng.randint(1, 8)) for _ in range(20)])
    ev = events(darsia, rng, shapes, quick, arrangements)
    bad = ck.validate("Trace_Resample", "Trace.cfg", ev, weight=lambda e: 5 + len(e.get("res", [])), budget=6000)
    for b in bad:
        e = b["event"]
        extra = ""
        if e["op"] == "coarsen_odd":
            extra = ":constant" if e.get("constant") else ":odd-extent"
        if e["op"] == "reduce":
            extra = f":{len(e['shape'])}d"
        if e["op"] == "superpose" and e.get("hclass", "dyadic") != "dyadic":
            extra = ":" + e["hclass"]
        ck.violation(f"C11:{b['clause']}:{e['op']}{extra}", f"{e['op']} violates {b['clause']}", {k: v for k, v in e.items() if k not in ("data", "res", "back", "imgs")})
    ck.cov["evaluations"] = len(ev)
    ck.cov["distinct_nontrivial"] = len({(e["op"], tuple(e.get("shape", [])), json.dumps(e.get("k")), e.get("f"), e.get("ax"), e.get("mode"), e.get("n")) for e in ev})
    ck.cov["rule"] = "2-D shapes enumerated by TLC (all extents <= 4) plus odd/larger ones; refinement levels 1..3 and back, coarsening, area resize with integer factors (conservative and plain), seeded generic down-sampling, reduction along every axis by index and name (2-D/3-D), extrusion, superposition of 1..4 grid-aligned images; non-trivial = distinct (operation, shape, parameters)"
    ck.cov["samples"] = [{k: v for k, v in ev[0].items()}, {k: v for k, v in ev[-1].items() if k != "imgs"}]
    ck.assumptions += ["OpenCV-backed results are compared after a 1e-5 near-integer test (block means scaled by the block size); generic ratios only through the conserved functional (1e-5 relative)",
                       "conservative Resize keeps the plain array sum (its documented functional); plain area resize keeps sum x voxel volume"]
