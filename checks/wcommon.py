"""Oracles for the Wasserstein solvers that are independent of darsia's FV code (used by C04, C05, C08)."""
import math

import numpy as np
import scipy.sparse as sps


def exponent(err, floor=-17):
    if not np.isfinite(err):
        return 3
    return int(max(floor, min(3, math.ceil(math.log10(max(err, 10.0 ** floor))))))


def incidence(grid):
    """Signed incidence scaled by face area, from the connectivity table (C07) and the voxel sizes."""
    h = np.asarray(grid.voxel_size, dtype=float)
    dim = grid.dim
    rows, cols, vals = [], [], []
    for d in range(dim):
        area = float(np.prod([h[a] for a in range(dim) if a != d]))
        for f in np.asarray(grid.faces[d]).tolist():
            lo, hi = np.asarray(grid.connectivity)[f]
            rows += [int(lo), int(hi)]
            cols += [int(f), int(f)]
            vals += [area, -area]
    return sps.csr_matrix((vals, (rows, cols)), shape=(int(grid.num_cells), int(grid.num_faces)))


def cell_flux(grid, u, t):
    """RT0 reconstruction at reference point t: (1-t_d) u[below] + t_d u[above], via reverse connectivity."""
    rev = np.asarray(grid.reverse_connectivity)
    nc = int(grid.num_cells)
    out = np.zeros((nc, grid.dim))
    ue = np.concatenate([np.asarray(u, dtype=float), [0.0]])  # index -1 -> 0
    for d in range(grid.dim):
        out[:, d] = (1 - t[d]) * ue[rev[d, :, 0]] + t[d] * ue[rev[d, :, 1]]
    return out


def quadrature(dim, l1_mode_name, npts_max):
    if l1_mode_name == "CONSTANT_CELL_PROJECTION":
        return [np.full(dim, 0.5)], [1.0]
    if l1_mode_name == "CONSTANT_SUBCELL_PROJECTION":
        import itertools
        pts = [np.array(p, dtype=float) for p in itertools.product([0.0, 1.0], repeat=dim)]
        return pts, [0.5 ** dim] * len(pts)
    x, w = np.polynomial.legendre.leggauss(npts_max)
    x = (x + 1) / 2
    w = w / 2
    import itertools
    pts, ws = [], []
    for idx in itertools.product(range(npts_max), repeat=dim):
        pts.append(np.array([x[i] for i in idx]))
        ws.append(float(np.prod([w[i] for i in idx])))
    return pts, ws


def transport_cost(grid, u, l1_mode_name, cell_weights_flat, npts_max):
    """Integral of |weight * flux| with the quadrature of the given mode; cell_weights_flat in cell-number order."""
    pts, ws = quadrature(grid.dim, l1_mode_name, npts_max)
    dens = np.zeros(int(grid.num_cells))
    for p, w in zip(pts, ws):
        cf = cell_flux(grid, u, p) * cell_weights_flat[:, None]
        dens += w * np.linalg.norm(cf, axis=1)
    vol = float(np.prod(np.asarray(grid.voxel_size, dtype=float)))
    return vol * float(dens.sum()), dens


def make_images(darsia, shape, h, a1, a2):
    dim = len(shape)
    kw = dict(space_dim=dim, dimensions=[h[a] * shape[a] for a in range(dim)], scalar=True)
    return darsia.Image(np.asarray(a1, dtype=float).reshape(shape), **kw), darsia.Image(np.asarray(a2, dtype=float).reshape(shape), **kw)


def random_masses(rng, shape, kind):
    n = int(np.prod(shape))
    if kind == "single":
        a1 = np.zeros(n)
        a2 = np.zeros(n)
        i, j = rng.randrange(n), rng.randrange(n)
        a1[i] = 3.0
        a2[j] = 3.0
    elif kind == "near":
        # two nearly identical distributions on a large common background (consecutive frames of a slow process): a small
        # amount of mass moved between a few cells, relative difference per cell below 1e-5
        a1 = np.full(n, 1000.0)
        a2 = np.full(n, 1000.0)
        for _ in range(max(1, n // 4)):
            i, j = rng.randrange(n), rng.randrange(n)
            if i != j:
                a1[i] += 0.004
                a2[j] += 0.004
        if np.array_equal(a1, a2):
            a1[0] += 0.004
            a2[-1] += 0.004
    elif kind == "compact":
        a1 = np.zeros(n)
        a2 = np.zeros(n)
        k = max(1, n // 3)
        for i in rng.sample(range(n), k):
            a1[i] = rng.randint(1, 4)
        tot = a1.sum()
        idx = rng.sample(range(n), k)
        for i in idx:
            a2[i] = 1.0
        a2 *= tot / a2.sum()
    else:
        a1 = np.array([rng.randint(1, 5) for _ in range(n)], dtype=float)
        a2 = np.array([rng.randint(1, 5) for _ in range(n)], dtype=float)
        a2 *= a1.sum() / a2.sum()
    return a1.reshape(shape), a2.reshape(shape)


def solver_twins(ck, darsia, pid, quick, methods=("newton", "bregman"), nkinds=3):
    """Two Wasserstein solver objects on grids that agree in shape, cell / face counts (and voxel volume, or - in 1-D - face
    area) and differ in the voxel sizes, set up and called along every interleaving of spec/TwoObjects.tla: each solves on ITS
    grid (distance, flux and mass balance are compared with the configuration made and used alone)."""
    import random
    import warnings
    from lib import twoobj
    hists = twoobj.histories(ck)
    tspecs = []
    kinds = [((3, 4), [0.5, 2.0], [2.0, 0.5]), ((8,), [1.0 / 8], [3.0 / 8]), ((3, 5), [0.5, 0.5], [0.5, 0.5])]
    for shape, ha, hb in kinds[:nkinds]:
        for method in methods:
            sb = shape if shape != (3, 5) else (5, 3)        # (3,5) / (5,3): equal counts of cells, faces, matrix entries

            def make(o, shape=shape, sb=sb, ha=ha, hb=hb, method=method):
                s_, h_ = (shape, ha) if o == "a" else (sb, hb)
                cls = darsia.WassersteinDistanceNewton if method == "newton" else darsia.WassersteinDistanceBregman
                opts = {"num_iter": 8, "verbose": False, "return_info": True, "L": 1e-2 if method == "newton" else 1.0, "formulation": "pressure", "linear_solver": "direct"}
                return (s_, h_, cls(darsia.Grid(s_, [float(x) for x in h_]), None, opts))

            def use(o, obj):
                s_, h_, w1 = obj
                a1, a2 = random_masses(random.Random(11), s_, "dense")
                i1, i2 = make_images(darsia, s_, h_, a1, a2)
                with warnings.catch_warnings():
                    warnings.simplefilter("ignore")
                    with np.errstate(all="ignore"):
                        d, info = w1(i1, i2)
                return [np.array([float(d)]), np.asarray(info["flux"], dtype=float)]

            def same(x, y):
                return all(p_.shape == q_.shape and np.allclose(p_, q_, rtol=1e-6, atol=1e-9) for p_, q_ in zip(x, y))

            sel = hists if not quick else [h for h in hists if len(h) <= 4][::2]
            name = f"{method}-" + "x".join(map(str, shape))
            tspecs.append((sel, name, make, use, same, "twin:" + name))
    return twoobj.run(ck, pid, tspecs)
