"""Helpers shared by the conformance drivers."""
import itertools
import random

import numpy as np

from lib.core import quantize_int

EXACT_H = [1.0, 0.5, 2.0 ** -10]
INEXACT_H = [0.1, 0.3 / 7, 1e-4, 1e4 / 3]


def gammas(rng: random.Random, n: int, count: int):
    """Concretisations (voxel sizes per matrix axis, origin mode)."""
    out = [([1.0] * n, "default"), ([rng.choice(INEXACT_H) for _ in range(n)], "user"),
           ([rng.choice(EXACT_H + INEXACT_H) for _ in range(n)], "far"),
           # integer-typed origins (Python ints / integer arrays) with fractional extents, and the default origin with
           # fractional extents (in 1-D the default origin is the integer array [0])
           ([rng.choice(INEXACT_H + [0.25]) for _ in range(n)], rng.choice(["int", "intarr"])),
           ([rng.choice(INEXACT_H + [0.25]) for _ in range(n)], "default")]
    while len(out) < count:
        out.append(([10 ** rng.uniform(-4, 4) for _ in range(n)], rng.choice(["default", "user", "far", "farneg", "int", "intarr"])))
    return out[:count]


def build_image(darsia, rng, shape, h, origin_mode, kind="scalar", table=None, dtype=float, cls=None):
    """arange-tagged image; returns (image, origin used by the harness, tags array)."""
    n = len(shape)
    extra = {"scalar": (), "vector": (3,), "series": (2,), "vseries": (2, 3)}[kind]
    size = int(np.prod(shape + tuple(extra)))
    arr = np.arange(size, dtype=dtype).reshape(tuple(shape) + extra)
    dims = [h[m] * shape[m] for m in range(n)]
    kw = dict(space_dim=n, dimensions=list(dims))
    if kind in ("scalar", "series"):
        kw["scalar"] = True
    if kind in ("series", "vseries"):
        kw["series"] = True
        kw["time"] = [float(t) for t in range(extra[0])]
    if origin_mode == "default":
        # documented default: the image occupies [0, dimension] on every Cartesian axis
        o = [0.0] * n
        for m in range(n):
            c, sgn = table[m]
            if sgn < 0:
                o[c - 1] = dims[m]
    elif origin_mode in ("int", "intarr"):
        oi = [int(rng.randint(-9, 9)) for _ in range(n)]
        o = [float(x) for x in oi]
        kw["origin"] = list(oi) if origin_mode == "int" else np.array(oi, dtype=np.int64)
    else:
        scale = {"user": 3.0, "far": 1e6, "farneg": -1e6}[origin_mode]
        o = [0.0] * n
        for m in range(n):
            c, sgn = table[m]
            o[c - 1] = scale * h[m] * (1 + 0.37 * m)
        kw["origin"] = list(o)
    img = (cls or darsia.Image)(arr, **kw)
    return img, np.array(o, dtype=float), arr


def to_lattice(x, o, table, h, unit=4):
    """Cartesian float point(s) -> integer lattice offsets from o in units h/unit."""
    x = np.atleast_2d(np.asarray(x, dtype=float))
    n = x.shape[1]
    hq = np.empty(n)
    for m in range(n):
        c, _ = table[m]
        hq[c - 1] = h[m] / unit
    k = (x - o) / hq
    r = np.round(k)
    ok = np.abs(k - r) <= 1e-6 * (1 + np.abs(k)) + 1e-9 * np.abs(o / hq)
    r = r.astype(np.int64)
    r[~ok] = 99999999
    return r.tolist()


def from_lattice(K, o, table, h, unit=4):
    K = np.atleast_2d(np.asarray(K, dtype=float))
    n = K.shape[1]
    hq = np.empty(n)
    for m in range(n):
        c, _ = table[m]
        hq[c - 1] = h[m] / unit
    return o + K * hq


def axis_twins(ck, darsia, pid, quick):
    """Reductions / slices of a 2-D and a 3-D image (the same axis name or matrix index means another array axis in each),
    along every interleaving of spec/TwoObjects.tla; returns the number of replayed histories."""
    from lib import twoobj
    hists = twoobj.histories(ck)

    def make(o):
        shape = (3, 4) if o == "a" else (2, 3, 4)
        nd = len(shape)
        img = darsia.Image(np.arange(float(np.prod(shape))).reshape(shape), space_dim=nd, dimensions=[0.5 * (m + 1) * shape[m] for m in range(nd)],
                           origin=[1.0 + m for m in range(nd)], scalar=True)
        return img

    def use(o, img):
        out = []
        for ax in ("y", 0, "x", 1):
            r = darsia.reduce_axis(img, ax, "sum")
            out += [np.asarray(r.img, dtype=float), np.asarray(r.origin, dtype=float), np.asarray(r.dimensions, dtype=float)]
        sl = img.slice(1, 0)
        out += [np.asarray(sl.img, dtype=float), np.asarray(sl.origin, dtype=float)]
        cut = float(np.asarray(img.coordinatesystem.coordinate([1] * img.space_dim))[1]) - 1e-3 * float(img.voxel_size[0])
        sn = img.slice(cut, "y")
        out += [np.asarray(sn.img, dtype=float), np.asarray(sn.origin, dtype=float)]
        return out

    def same(x, y):
        return len(x) == len(y) and all(p_.shape == q_.shape and np.allclose(p_, q_, rtol=1e-12, atol=1e-12) for p_, q_ in zip(x, y))

    sel = hists if not quick else [h for h in hists if len(h) <= 4]
    return twoobj.run(ck, pid, [(sel, "reduction-2d-3d", make, use, same, "twin:axes")])
