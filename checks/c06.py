"""C06 — finite-volume operators obey the discrete divergence theorem."""
import json
import random

import numpy as np

from lib.core import import_darsia, quantize_int

LEVEL = "model_checking"
BADINT = 99999999


def grid_tables(grid):
    dim = grid.dim
    return {
        "shape": [int(s) for s in grid.shape],
        "faces": [[int(f) for f in grid.faces[d]] for d in range(dim)],
        "conn": [[int(a), int(b)] for a, b in np.asarray(grid.connectivity)],
        "rev": [[[int(a), int(b)] for a, b in np.asarray(grid.reverse_connectivity)[d]] for d in range(dim)],
    }


def qi(x, tol=1e-9):
    r = quantize_int(float(x), tol)
    return BADINT if r is None else r


GROUTE = [0]
CMAG = [-1]


def events_for(darsia, rng, shape, h, tid, integer_h):
    """h: voxel sizes. integer_h: log values as integers directly; otherwise normalise by the harness' own areas."""
    dim = len(shape)
    # the grid is built from the shape / voxel sizes in the forms callers hold them (tuple, list, integer or float arrays);
    # an array handed over stays the caller's: it is refilled right after the grid exists (a work buffer for the next grid)
    GROUTE[0] += 1
    groute = GROUTE[0] % 4
    if groute == 0:
        grid = darsia.Grid(tuple(shape), [float(x) for x in h])
    elif groute == 1:
        harr = np.array([float(x) for x in h])
        grid = darsia.Grid(list(shape), harr)
        harr[...] = 7.25
    elif groute == 2:
        sarr, harr = np.array(shape, dtype=np.int64), np.array([float(x) for x in h], dtype=np.float64)
        grid = darsia.Grid(sarr, voxel_size=harr)
        harr *= 3.0
        shape_written = not np.array_equal(sarr, np.array(shape))
    else:
        grid = darsia.Grid(shape=tuple(shape), voxel_size=tuple(float(x) for x in h))
    G = grid_tables(grid)
    if groute == 2 and shape_written:
        G["shape"] = [-1] * len(shape)           # the caller's shape array was written to: nothing built on it is trusted
    nf, nc = int(grid.num_faces), int(grid.num_cells)
    hspec = [int(x) for x in h] if integer_h else [1] * dim
    axis_of = {}
    for d in range(dim):
        for f in G["faces"][d]:
            axis_of[f] = d
    area = [float(np.prod([h[a] for a in range(dim) if a != d])) for d in range(dim)]
    vol = float(np.prod(h))
    base = {"tid": tid, "G": G, "h": hspec}
    ev = []
    # divergence and mass matrices.  Each operator is built TWICE on the same grid object (solvers, tests and users share
    # grids): both builds, and the first one re-read after the second exists, have to be the operator of the specification
    def div_entries(op):
        D = op.mat.tocoo()
        ents = []
        for r_, c_, v_ in zip(D.row, D.col, D.data):
            if v_ == 0:
                continue
            val = v_ if integer_h else v_ / area[axis_of.get(int(c_), 0)]
            ents.append([int(r_), int(c_), qi(val)])
        return dict(base, op="div", nrows=int(D.shape[0]), ncols=int(D.shape[1]), entries=sorted(ents))

    d1 = darsia.FVDivergence(grid)
    ev.append(div_entries(d1))
    d2 = darsia.FVDivergence(grid)
    ev.append(div_entries(d2))
    ev.append(div_entries(d1))
    # the caller rescales ITS operator in place (sign convention, units) and somebody builds the operator of the grid again
    if d1.mat.nnz:
        d1.mat.data *= -3.0
        ev.append(div_entries(darsia.FVDivergence(grid)))
        ev.append(div_entries(d2))

    def mass_entries(op, mode):
        M = op.mat.tocoo()
        diag = np.zeros(M.shape[0])
        off = 0
        for r_, c_, v_ in zip(M.row, M.col, M.data):
            if r_ == c_:
                diag[r_] += v_
            elif v_ != 0:
                off += 1
        return dict(base, op="mass", mode=mode, offdiag=off, diag=[qi(x if integer_h else x / vol) for x in diag])

    for mode in ("cells", "faces"):
        m1 = darsia.FVMass(grid, mode)
        ev.append(mass_entries(m1, mode))
        m2 = darsia.FVMass(grid, mode)
        ev.append(mass_entries(m2, mode))
        ev.append(mass_entries(m1, mode))
        if m1.mat.nnz:
            m1.mat.data *= 3.0       # as above: the caller's own matrix, modified in place
            ev.append(mass_entries(darsia.FVMass(grid, mode), mode))
            ev.append(mass_entries(m2, mode))
    if nf == 0:
        return ev
    # face -> cell reconstruction at rational reference points.  ONE caller-owned flux array serves all these calls (and the
    # reconstructions below); the evaluation point is passed in the forms callers use: ndarray, list, tuple, scalar (1-D)
    ua = np.array([rng.randint(-9, 9) for _ in range(nf)], dtype=float)
    u = [int(x) for x in ua]
    held = []
    for rep in range(3):
        q = rng.choice([1, 2, 4])
        t = [rng.randint(0, q) for _ in range(dim)]
        form = rng.choice(["array", "list", "tuple"] + (["scalar"] if dim == 1 else []))
        pt = {"array": np.array([ti / q for ti in t]), "list": [ti / q for ti in t], "tuple": tuple(ti / q for ti in t), "scalar": t[0] / q}[form]
        res = darsia.face_to_cell(grid, ua, pt)
        flat = [[qi(q * res[..., d].ravel("F")[c]) for d in range(dim)] for c in range(nc)]
        ev.append(dict(base, op="f2c", u=u, t=t, q=q, res=flat, ptform=form))
        held.append((len(ev) - 1, res, np.array(res, copy=True)))      # the caller keeps what it was given
    res = darsia.face_to_cell(grid, ua)  # default: cell centre
    held.append((len(ev), res, np.array(res, copy=True)))
    # results of earlier calls are the caller's arrays: a later reconstruction on the same grid does not write into them
    for (idx_, obj_, snap_) in held[:-1]:
        if not np.array_equal(np.asarray(obj_), snap_):
            ev[idx_]["res"] = [[BADINT]]
    ev.append(dict(base, op="f2c", u=u, t=[1] * dim, q=2,
                   res=[[qi(2 * res[..., d].ravel("F")[c]) for d in range(dim)] for c in range(nc)]))
    # cell -> face averages.  One caller-owned field per kind is averaged several times (harmonic, arithmetic, harmonic,
    # arithmetic): every call has to return the mean of the values the caller holds, whatever was computed before
    for kind in ("scalar", "vector", "tensor"):
        if kind == "scalar":
            # (scalar fields with compact support: exact zeros next to positive values, zeros next to zeros)
            arr = np.array([rng.randint(0, 3) if rng.random() < 0.6 else 0 for _ in range(nc)], dtype=float).reshape(shape, order=rng.choice(["F", "C"]))
            v = [int(x) for x in arr.ravel("F")]
            if rng.random() < 0.5:
                arr = arr[..., None]
        elif kind == "vector":
            arr = np.array([[rng.randint(1, 3) for _ in range(dim)] for _ in range(nc)], dtype=float).reshape(tuple(shape) + (dim,), order="F")
            v = [[int(arr[..., d].ravel("F")[c]) for d in range(dim)] for c in range(nc)]
        else:
            arr = np.array([[[rng.randint(1, 3) for _ in range(dim)] for _ in range(dim)] for _ in range(nc)], dtype=float).reshape(tuple(shape) + (dim, dim), order="F")
            v = [[[int(arr[..., a, b].ravel("F")[c]) for b in range(dim)] for a in range(dim)] for c in range(nc)]
        if kind == "vector" and dim == 1:
            continue  # shape (..., 1) is documented as the scalar form
        # (the field in its units: order one; permeabilities of order 1e-12; counts of order 1e9 - means are homogeneous)
        CMAG[0] += 1
        cscale = [1.0, 1e-12, 1e9][CMAG[0] % 3]
        arr_s = arr * cscale
        for mode in ("harmonic", "arithmetic", "harmonic", "arithmetic"):
            res = np.asarray(darsia.cell_to_face_average(grid, arr_s, mode), dtype=float) / cscale
            ev.append(dict(base, op="c2f", kind=kind, mode=mode, v=v, res=[qi(60 * x, 1e-7) for x in res]))
    # tangential and full reconstruction: one operator object each, applied to the caller's flux array and then to a second one
    if dim >= 2:
        T_op = darsia.FVTangentialFaceReconstruction(grid)
        F_op = darsia.FVFullFaceReconstruction(grid)
        ub = np.array([rng.randint(-9, 9) for _ in range(nf)], dtype=float)
        for arr_ in (ua, ub, ua):
            ul = [int(x) for x in arr_]
            tr = T_op(arr_, False)
            ev.append(dict(base, op="tang", u=ul, res=[[qi(4 * x) for x in comp] for comp in tr]))
            # the concatenated form must be the same numbers
            cat = T_op(arr_, True)
            if not np.array_equal(np.concatenate(tr), cat):
                ev[-1]["res"] = [[BADINT] * nf] * (dim - 1)
            full = F_op(arr_)
            ev.append(dict(base, op="full", u=ul, res=[[qi(4 * x) for x in row] for row in full]))
        # the caller reweights its reconstruction matrices in place; operators built for the grid afterwards are new ones
        for m_ in (T_op.mat if isinstance(T_op.mat, (list, tuple)) else [T_op.mat]):
            if hasattr(m_, "data") and m_.nnz:
                m_.data *= 2.0
        ul = [int(x) for x in ub]
        ev.append(dict(base, op="tang", u=ul, res=[[qi(4 * x) for x in comp] for comp in darsia.FVTangentialFaceReconstruction(grid)(ub, False)]))
        ev.append(dict(base, op="full", u=ul, res=[[qi(4 * x) for x in row] for row in darsia.FVFullFaceReconstruction(grid)(ub)]))
        uc = [1] * nf
        trc = darsia.FVTangentialFaceReconstruction(grid)(np.array(uc, dtype=float), False)
        ev.append(dict(base, op="tang", u=uc, res=[[qi(4 * x) for x in comp] for comp in trc]))
    if not np.array_equal(ua, np.array(u, dtype=float)):
        # the caller's flux array was written to by one of the operators: every result computed from it is void
        for e_ in ev:
            if e_.get("u") == u and e_["op"] in ("f2c", "tang", "full"):
                e_["res"] = [[BADINT]]
    return ev


def twin_grids(ck, darsia, quick):
    """Operators of two grids that agree in shape, cell / face counts and voxel volume and differ in the voxel sizes, built and
    applied along every interleaving of spec/TwoObjects.tla: each grid's operators are those of ITS voxel sizes."""
    from lib import twoobj
    hists = twoobj.histories(ck)
    total = 0
    tspecs = []
    for shape, ha, hb in (((3, 4), [0.5, 2.0], [2.0, 0.5]), ((2, 3, 2), [0.5, 1.0, 2.0], [2.0, 0.25, 2.0]), ((5,), [0.5], [1.5])):
        u = np.arange(1, 1 + int(darsia.Grid(shape, ha).num_faces), dtype=float)

        def make(o, shape=shape, ha=ha, hb=hb):
            g = darsia.Grid(shape, ha if o == "a" else hb)
            ops = {"grid": g, "div": darsia.FVDivergence(g), "mc": darsia.FVMass(g, "cells"), "mf": darsia.FVMass(g, "faces")}
            if g.dim >= 2:
                ops["tang"] = darsia.FVTangentialFaceReconstruction(g)
            return ops

        def use(o, ops, u=u):
            g = ops["grid"]
            out = [ops["div"].mat.toarray(), ops["mc"].mat.toarray(), ops["mf"].mat.toarray(), np.asarray(darsia.face_to_cell(g, u)),
                   np.asarray(darsia.cell_to_face_average(g, np.arange(1.0, 1.0 + g.num_cells).reshape(g.shape, order="F"), "harmonic")),
                   np.asarray(darsia.FVDivergence(g).mat @ u)]
            if "tang" in ops:
                out += [np.asarray(x) for x in ops["tang"](u, False)]
                out.append(np.asarray(darsia.FVFullFaceReconstruction(g)(u)))
            return out

        def same(x, y):
            return len(x) == len(y) and all(p.shape == q.shape and np.allclose(p, q, rtol=1e-12, atol=1e-14) for p, q in zip(x, y))

        sel = hists if not quick else [h for h in hists if len(h) <= 4] + hists[-6:]
        tspecs.append((sel, "grid-" + "x".join(map(str, shape)), make, use, same, "twin:" + "x".join(map(str, shape))))
    total = twoobj.run(ck, "C06", tspecs)
    return total


def run(ck, replay=None):
    ck.sany("MC_FV", "Trace_FV")
    r = ck.model_check("MC_FV", f"MC_FV_{ck.tier}.cfg", workers=8 if ck.tier == "quick" else 16, big=(ck.tier == "thorough"))
    shapes = sorted({tuple(p[1]) for p in r.printed("SCN")})
    darsia = import_darsia()
    rng = random.Random(ck.seed)
    quick = ck.tier == "quick"
    ntwin = twin_grids(ck, darsia, quick)
    # shapes beyond the model-checking bound, within C07's range
    extra = [(rng.randint(1, 12),) for _ in range(2 if quick else 8)]
    extra += [(rng.randint(1, 7), rng.randint(1, 7)) for _ in range(4 if quick else 25)]
    extra += [(rng.randint(1, 5), rng.randint(1, 5), rng.randint(1, 5)) for _ in range(3 if quick else 25)]
    cases = []
    if replay:
        for c in json.load(open(replay))["cases"]:
            cases.append((tuple(c["shape"]), c["hreal"], c["integer_h"]))
    else:
        for s in shapes + extra:
            cases.append((s, [rng.randint(1, 3) for _ in s], True))
            cases.append((s, [rng.choice([0.1, 0.25, 0.3 / 7, 1e-3, 17.0]) for _ in s], False))
    events, info = [], {}
    for i, (s, h, ih) in enumerate(cases):
        tid = f"g{i}"
        info[tid] = {"shape": list(s), "hreal": list(h), "integer_h": ih}
        events += events_for(darsia, rng, list(s), h, tid, ih)
    bad = ck.validate("Trace_FV", "Trace.cfg", events, weight=lambda e: 20 + 4 * len(e["G"]["conn"]), budget=20000)
    for b in bad:
        e = b["event"]
        sig = f"C06:{b['clause']}:{e['op']}" + (f":{e['kind']}:{e['mode']}" if e["op"] == "c2f" else (":" + e["mode"] if e["op"] == "mass" else "")) + f":{len(e['G']['shape'])}d"
        ck.violation(sig, f"{e['op']} violates {b['clause']}", dict(info[b["tid"]], op=e["op"], clause=b["clause"]))
    ck.cov["evaluations"] = len(events) + ntwin
    ck.cov["twin_object_histories"] = ntwin
    ck.cov["distinct_nontrivial"] = len({(tuple(c[0]), tuple(c[1])) for c in cases if np.prod(c[0]) > 1})
    ck.cov["rule"] = "every shape enumerated by MC_FV plus seeded shapes of the C07 range, each with integer and with float anisotropic voxel sizes; operators applied to seeded integer fluxes / cell fields and rational reference points; non-trivial = grid with more than one cell"
    ck.cov["samples"] = [{k: v for k, v in events[0].items() if k != "G"}, info["g0"]]
    ck.assumptions += ["integer data: sums are exact in double precision; float grids are normalised by the harness' own areas/volumes (1e-9 relative)",
                       "connectivity tables used by the operators' specification are the implementation's own (validated separately by C07)"]
