"""C05 — computed Wasserstein distances behave like an optimal-transport cost."""
import itertools
import json
import random
import warnings

import numpy as np
import scipy.optimize

from lib.core import import_darsia
from checks.wcommon import incidence, transport_cost, make_images

LEVEL = "exploration"
L1 = {"cell": "CONSTANT_CELL_PROJECTION", "subcell": "CONSTANT_SUBCELL_PROJECTION", "rt": "RAVIART_THOMAS"}
MOBS = ["CELL_BASED", "CELL_BASED_ARITHMETIC", "CELL_BASED_HARMONIC", "SUBCELL_BASED", "FACE_BASED"]


def d6(x):
    return int(round(1e6 * float(x)))


def solve(darsia, img1, img2, method, l1, mob, weight=None, extra=None, status=False):
    opts = {"l1_mode": getattr(darsia.L1Mode, L1[l1]), "mobility_mode": getattr(darsia.MobilityMode, mob), "num_iter": 60,
            "tol_residual": 1e-10, "tol_increment": 1e-10, "tol_distance": 1e-12, "L": 1e-2 if method == "newton" else 1.0}
    if status:
        opts["return_status"] = True
    opts.update(extra or {})
    with warnings.catch_warnings():
        warnings.simplefilter("ignore")
        with np.errstate(all="ignore"):
            return darsia.wasserstein_distance(img1, img2, method=method, weight=weight, options=opts)


def thin_event(darsia, rng, tid, m1, m2, big=False):
    n = len(m1)
    dim = rng.choice([1, 2, 2, 3])
    pos = rng.randrange(dim)
    shape = tuple(n if a == pos else 1 for a in range(dim))
    hs = [rng.randint(1, 3) for _ in range(dim)]
    h = hs[pos]
    a = int(np.prod([hs[i] for i in range(dim) if i != pos]))
    mode = rng.choice(["cell", "subcell", "rt"])
    method = rng.choice(["newton", "bregman"])
    mob = rng.choice(MOBS)
    # the unique flux is the prefix sum of the mass difference; where it vanishes at an interior face Newton's mobility is 1/regularization
    pre = np.cumsum(np.array(m2) - np.array(m1))[:-1]
    zface = bool(np.any(pre == 0))
    reg = rng.choice(["default", "1e-10"]) if method == "newton" else "default"
    e = {"tid": tid, "op": "thin", "n": n, "shape": list(shape), "h": h, "a": a, "m1": list(m1), "m2": list(m2), "mode": mode, "method": method, "mob": mob, "raised": 0, "d2": -1,
         "reg": reg, "cls": "vanishing-face-flux:default-regularization" if (method == "newton" and zface and reg == "default") else "regular"}
    try:
        img1, img2 = make_images(darsia, shape, [float(x) for x in hs], np.array(m1, dtype=float).reshape(shape), np.array(m2, dtype=float).reshape(shape))
        extra = {"num_iter": 8}
        if reg != "default":
            extra["regularization"] = float(reg)
        d = float(solve(darsia, img1, img2, method, mode, mob, extra=extra))
        e["d2"] = int(round(2 * d)) if abs(2 * d - round(2 * d)) <= 1e-5 * (1 + abs(2 * d)) else -1
        e["d_6"] = d6(d) if abs(d) < 2000 else -1
    except Exception as ex:  # noqa
        e["raised"] = 1
        e["error"] = repr(ex)[:160]
    return e


def cycle_basis(grid, D):
    """Null space of the incidence matrix (flux cycles), dense, for small grids."""
    import scipy.linalg
    return scipy.linalg.null_space(D.toarray())


def brute_force_min(darsia, grid, rhs, l1, wflat, nq, u0, nstarts=3):
    D = incidence(grid)
    N = cycle_basis(grid, D)
    if N.shape[1] == 0 or N.shape[1] > 6:
        return None
    f = lambda z: transport_cost(grid, u0 + N @ z, L1[l1], wflat, nq)[0]
    best = f(np.zeros(N.shape[1]))
    rs = np.random.RandomState(0)
    for s in range(nstarts):
        z0 = np.zeros(N.shape[1]) if s == 0 else rs.randn(N.shape[1]) * np.abs(u0).max()
        for meth in ("Powell", "Nelder-Mead"):
            r = scipy.optimize.minimize(f, z0, method=meth, options={"xatol": 1e-10, "fatol": 1e-12, "maxiter": 4000} if meth == "Nelder-Mead" else {"xtol": 1e-10, "ftol": 1e-12})
            best = min(best, float(r.fun))
            z0 = r.x
    return best


def relations_event(darsia, rng, tid):
    shape = rng.choice([(3, 3), (4, 3), (2, 2, 2), (3, 2), (5,), (4, 1), (2, 3, 1), (3, 4)])
    dim = len(shape)
    hs = [rng.choice([1.0, 0.5, 2.0, 0.25]) for _ in range(dim)]
    n = int(np.prod(shape))
    kind = rng.choice(["dense", "compact"])
    a1 = np.array([rng.randint(1, 5) if kind == "dense" or rng.random() < 0.4 else 0 for _ in range(n)], dtype=float)
    a2 = np.array([rng.randint(1, 5) if kind == "dense" or rng.random() < 0.4 else 0 for _ in range(n)], dtype=float)
    if a1.sum() == 0:
        a1[0] = 2.0
    if a2.sum() == 0:
        a2[-1] = 2.0
    a2 *= a1.sum() / a2.sum()
    method = rng.choice(["newton", "bregman"])
    l1 = rng.choice(["cell", "subcell", "rt"])
    mob = rng.choice(MOBS)
    cnum, cden = rng.choice([(2, 1), (4, 1), (1, 2), (3, 2), (5, 1)])
    c = cnum / cden
    e = {"tid": tid, "op": "relations", "shape": list(shape), "method": method, "l1": l1, "mob": mob, "cnum": cnum, "cden": cden, "raised": 0, "kind": kind,
         "self6": 0, "base6": 0, "swap6": 0, "scaled6": 0, "wscaled6": 0, "scale_applicable": 0, "wscale_applicable": 0, "moment6": 0, "min6": -1, "front6": 0, "back6": 0}
    try:
        img1, img2 = make_images(darsia, shape, hs, a1.reshape(shape), a2.reshape(shape))
        e["self6"] = d6(solve(darsia, img1, img1, method, l1, mob))
        base, conv = solve(darsia, img1, img2, method, l1, mob, status=True)
        e["base6"] = d6(base)
        e["swap6"] = d6(solve(darsia, img2, img1, method, l1, mob))
        s1, s2 = make_images(darsia, shape, hs, c * a1.reshape(shape), c * a2.reshape(shape))
        sc, conv2 = solve(darsia, s1, s2, method, l1, mob, status=True)
        e["scaled6"] = d6(sc)
        e["scale_applicable"] = int(bool(conv) and bool(conv2)) if 1 not in shape and dim > 1 else 1
        w = darsia.Image(np.full(shape, c), space_dim=dim, dimensions=[hs[a] * shape[a] for a in range(dim)], scalar=True)
        ws, conv3 = solve(darsia, img1, img2, method, l1, mob, weight=w, status=True)
        e["wscaled6"] = d6(ws)
        e["wscale_applicable"] = int(bool(conv) and bool(conv3)) if 1 not in shape and dim > 1 else 1
        # first moment of the mass difference (cell centres), Euclidean length
        vol = float(np.prod(hs))
        idx = np.indices(shape).reshape(dim, -1).T
        centres = (idx + 0.5) * np.array(hs)
        diff = (a2 - a1) * vol
        e["moment6"] = d6(np.linalg.norm((centres * diff[:, None]).sum(axis=0)))
        # unified front-end against the class it dispatches to
        grid = darsia.generate_grid(img1)
        opts = {"l1_mode": getattr(darsia.L1Mode, L1[l1]), "mobility_mode": getattr(darsia.MobilityMode, mob), "num_iter": 60,
                "tol_residual": 1e-10, "tol_increment": 1e-10, "tol_distance": 1e-12, "L": 1e-2 if method == "newton" else 1.0}
        cls = darsia.WassersteinDistanceNewton if method == "newton" else darsia.WassersteinDistanceBregman
        with warnings.catch_warnings():
            warnings.simplefilter("ignore")
            with np.errstate(all="ignore"):
                e["back6"] = d6(cls(grid, None, dict(opts))(img1, img2))
        e["front6"] = e["base6"]
        # brute-force minimum of the discrete cost over all mass-conserving fluxes (cycle space of <= 6 cycles)
        D = incidence(grid)
        rhs = vol * (a2 - a1).reshape(shape).ravel("F")
        u0 = np.linalg.lstsq(D.toarray(), rhs, rcond=None)[0]
        nq = int(round(len(darsia.quadrature.gauss_reference_cell(dim, "max")[1]) ** (1.0 / dim)))
        mn = brute_force_min(darsia, grid, rhs, l1, np.ones(n), nq, u0)
        if mn is not None:
            e["min6"] = d6(mn)
    except Exception as ex:  # noqa
        e["raised"] = 1
        e["error"] = repr(ex)[:200]
    return e


def emd_event(darsia, rng, tid):
    H, W = rng.randint(2, 5), rng.randint(2, 5)
    hs = [rng.choice([1.0, 0.5, 2.0]), rng.choice([1.0, 0.25, 3.0])]
    p = (rng.randrange(H), rng.randrange(W))
    q = (rng.randrange(H), rng.randrange(W))
    m = rng.choice([1.0, 2.0, 0.5])
    a1 = np.zeros((H, W))
    a2 = np.zeros((H, W))
    a1[p] = m
    a2[q] = m
    e = {"tid": tid, "op": "emd", "shape": [H, W], "raised": 0, "d6": 0, "swap6": 0, "scaled6": 0, "expected6": 0}
    try:
        img1, img2 = make_images(darsia, (H, W), hs, a1, a2)
        s1, s2 = make_images(darsia, (H, W), hs, 2 * a1, 2 * a2)
        e["d6"] = d6(darsia.wasserstein_distance(img1, img2, method="cv2.emd"))
        e["swap6"] = d6(darsia.EMD()(img2, img1))
        e["scaled6"] = d6(darsia.EMD()(s1, s2))
        dist = float(np.hypot((p[0] - q[0]) * hs[0], (p[1] - q[1]) * hs[1]))
        e["expected6"] = d6(m * hs[0] * hs[1] * dist)
    except Exception as ex:  # noqa
        e["raised"] = 1
        e["error"] = repr(ex)[:160]
    return e


def run(ck, replay=None):
    ck.sany("MC_TransportCost", "Trace_TransportCost")
    r = ck.model_check("MC_TransportCost", f"MC_TransportCost_{ck.tier}.cfg", workers=8)
    pairs = sorted({(tuple(p[1]), tuple(p[2])) for p in r.printed("SCN")})
    darsia = import_darsia()
    rng = random.Random(ck.seed)
    quick = ck.tier == "quick"
    events = []
    sel = rng.sample(pairs, min(len(pairs), 30 if quick else 1500))
    for i, (m1, m2) in enumerate(sel):
        events.append(thin_event(darsia, rng, f"thin:{i}", m1, m2))
    for i in range(4 if quick else 150):   # longer chains than the model-checking bound (all 1-D and n x 1 (x 1) grids up to 40 cells)
        n = rng.randint(7, 40)
        m1 = [rng.randint(0, 5) for _ in range(n)]
        m2 = [rng.randint(0, 5) for _ in range(n)]
        d = sum(m1) - sum(m2)
        j = rng.randrange(n)
        if d > 0:
            m2[j] += d
        else:
            m1[j] += -d
        if sum(m1) == 0:
            continue
        events.append(thin_event(darsia, rng, f"thinlong:{i}", m1, m2))
    for i in range(6 if quick else 60):   # ~25 s each (several solves plus the brute-force minimum)
        events.append(relations_event(darsia, rng, f"rel:{i}"))
    for i in range(8 if quick else 100):
        events.append(emd_event(darsia, rng, f"emd:{i}"))
    bad = ck.validate("Trace_TransportCost", "Trace.cfg", events, chunk=500)
    for b in bad:
        e = b["event"]
        if e["op"] == "thin":
            sig = f"C05:{b['clause']}:thin:{e['mode']}:{e['method']}:{e['mob']}:{e['cls']}"
        elif e["op"] == "relations":
            sig = f"C05:{b['clause']}:{e['method']}:{e['l1']}:{e['mob']}"
        else:
            sig = f"C05:{b['clause']}:emd"
        ck.violation(sig, f"{e['op']} violates {b['clause']}", {k: v for k, v in e.items() if k != "tid"})
    ck.cov["evaluations"] = len(events)
    ck.cov["distinct_nontrivial"] = len({json.dumps({k: v for k, v in e.items() if k in ("m1", "m2", "shape", "method", "l1", "mode", "mob")}, sort_keys=True) for e in events})
    ck.cov["rule"] = "equal-mass integer pairs on chains enumerated by TLC (quick n<=4, thorough n<=6, entries 0..2) plus seeded chains up to 40 cells, each on a random thin orientation (1-D, n x 1, 1 x n, 3-D) with integer anisotropic sizes, random L1 mode / method / mobility; seeded relation cases on small 1-3-D grids (zero, swap, scaling, constant weight, first moment, brute-force minimum over <= 6 cycles, front-end dispatch); single-cell moves for the OpenCV back-end"
    ck.cov["samples"] = [events[0], [e for e in events if e["op"] == "relations"][0]]
    ck.assumptions += ["distances are compared in 1e-6 units with 1e-5 absolute + relative tolerance; scaling clauses only for converged runs (or thin grids where the flux is unique)",
                       "the brute-force minimum is computed by the harness (scipy, multiple starts) on the cycle space - an E4 observable, not computed by TLC"]
