"""C05 — computed Wasserstein distances behave like an optimal-transport cost."""
import itertools
import json
import time
import random
import warnings

import numpy as np
import scipy.optimize

from lib.core import import_darsia
from checks.wcommon import incidence, transport_cost, make_images, quadrature, cell_flux

LEVEL = "exploration"
L1 = {"cell": "CONSTANT_CELL_PROJECTION", "subcell": "CONSTANT_SUBCELL_PROJECTION", "rt": "RAVIART_THOMAS"}
MOBS = ["CELL_BASED", "CELL_BASED_ARITHMETIC", "CELL_BASED_HARMONIC", "SUBCELL_BASED", "FACE_BASED"]


def d6(x):
    return int(round(1e6 * float(x)))


def solve(darsia, img1, img2, method, l1, mob, weight=None, extra=None, status=False):
    opts = {"l1_mode": getattr(darsia.L1Mode, L1[l1]), "mobility_mode": getattr(darsia.MobilityMode, mob), "num_iter": 60,
            "tol_residual": 1e-10, "tol_increment": 1e-10, "tol_distance": 1e-12, "L": 1e-2 if method == "newton" else 1.0}
    if status:
        opts["return_status"] = True
    opts.update(extra or {})
    # the same computation is reachable by several routes (front-end with the method name in any capitalisation, positional or
    # keyword weight, the solver classes on a grid generated from the image); the routes are taken in turn
    ROUTE[0] += 1
    route = ROUTE[0] % 4
    with warnings.catch_warnings():
        warnings.simplefilter("ignore")
        with np.errstate(all="ignore"):
            if route == 0:
                return darsia.wasserstein_distance(img1, img2, method=method, weight=weight, options=opts)
            if route == 1:
                return darsia.wasserstein_distance(img1, img2, method.capitalize(), weight, options=opts)
            if route == 2:
                return darsia.wasserstein_distance(mass_1=img1, mass_2=img2, method=method.upper(), weight=weight, options=opts)
            cls = darsia.WassersteinDistanceNewton if method == "newton" else darsia.WassersteinDistanceBregman
            return cls(darsia.generate_grid(img1), weight, opts)(img1, img2)


ROUTE = [0]


THIN = [-1]


def thin_event(darsia, rng, tid, m1, m2, big=False, force=None, mscale=1.0):
    n = len(m1)
    # (orientation of the chain: every axis of 1-D, 2-D and 3-D grids in turn)
    THIN[0] += 1
    dim, pos = [(1, 0), (2, 0), (2, 1), (3, 0), (3, 1), (3, 2)][THIN[0] % 6]
    shape = tuple(n if a == pos else 1 for a in range(dim))
    hs = [rng.randint(1, 3) for _ in range(dim)]
    h = hs[pos]
    a = int(np.prod([hs[i] for i in range(dim) if i != pos]))
    mode = rng.choice(["cell", "subcell", "rt"])
    method = rng.choice(["newton", "bregman"])
    if force:
        mode, method = force
    mob = rng.choice(MOBS)
    # the unique flux is the prefix sum of the mass difference; where it vanishes at an interior face Newton's mobility is 1/regularization
    pre = np.cumsum(np.array(m2) - np.array(m1))[:-1]
    full = np.concatenate([[0], pre, [0]])
    # ... or at a cell centre (the two face fluxes of a cell cancel): the cell-based mobilities are then 1/regularization too
    zface = bool(np.any(pre == 0)) or bool(np.any(full[:-1] + full[1:] == 0))
    reg = rng.choice(["default", "1e-10"]) if method == "newton" else "default"
    e = {"tid": tid, "op": "thin", "n": n, "shape": list(shape), "h": h, "a": a, "m1": list(m1), "m2": list(m2), "mode": mode, "method": method, "mob": mob, "raised": 0, "d2": -1,
         "gauss6": -1, "reg": reg, "cls": "vanishing-flux:default-regularization" if (method == "newton" and zface and reg == "default") else "regular"}
    try:
        img1, img2 = make_images(darsia, shape, [float(x) for x in hs], mscale * np.array(m1, dtype=float).reshape(shape), mscale * np.array(m2, dtype=float).reshape(shape))
        idt = rng.choice(["float64", "float64", "uint8", "uint16", "int64", "float32"])     # integer masses in the pixel types images come in
        if mscale != 1.0:
            idt = "float64"
        if max(max(m1), max(m2)) > 250:
            idt = rng.choice(["float64", "int64"])
        e["imgdtype"] = idt
        if idt != "float64":
            img1.img = img1.img.astype(idt)
            img2.img = img2.img.astype(idt)
        extra = {"num_iter": 8}
        if reg != "default":
            extra["regularization"] = float(reg)
        d = float(solve(darsia, img1, img2, method, mode, mob, extra=extra)) / mscale      # (the distance is homogeneous in the masses)
        e["d2"] = int(round(2 * d)) if np.isfinite(d) and abs(d) < 1e8 and abs(2 * d - round(2 * d)) <= 1e-5 * (1 + abs(2 * d)) else -1
        e["d_6"] = d6(d) if abs(d) < 2000 else -1
        if mode == "rt":
            # the cost of the unique flux under the Gauss rule, by the harness' own quadrature (the integrand has a kink where
            # the flux changes sign inside a cell, so this value is not an integer formula of the specification)
            grid = darsia.generate_grid(img1)
            D = incidence(grid)
            rhs = float(np.prod(hs)) * (np.array(m2, dtype=float) - np.array(m1, dtype=float)).reshape(shape).ravel("F")
            u = np.linalg.lstsq(D.toarray(), rhs, rcond=None)[0]
            nq = int(round(len(darsia.quadrature.gauss_reference_cell(dim, "max")[1]) ** (1.0 / dim)))
            g = transport_cost(grid, u, L1["rt"], np.ones(n), nq)[0]
            e["gauss6"] = d6(g) if abs(g) < 2000 else -1
    except Exception as ex:  # noqa
        e["raised"] = 1
        e["error"] = repr(ex)[:160]
    return e


def cycle_basis(grid, D):
    """Null space of the incidence matrix (flux cycles), dense, for small grids."""
    import scipy.linalg
    return scipy.linalg.null_space(D.toarray())


VERBOSE = False


def certified_min(darsia, grid, rhs, l1, wflat, nq, u0):
    """Certified bracket [LB, UB] of the minimum of the discrete transport cost over all mass-conserving fluxes.

    The cost is f(z) = vol * sum_{c,q} w_q |W_c A_{c,q} (u0 + N z)| (N = cycle basis): convex, a sum of Euclidean norms of
    affine functions.  f_eps (norms replaced by sqrt(|.|^2 + eps^2)) is smooth and convex with f <= f_eps <= f + eps * S,
    S = vol * sum_{c,q} w_q.  At any point z convexity gives  min f_eps >= f_eps(z) - |grad f_eps(z)| * R  for every minimiser
    within distance R of z, hence  min f >= f_eps(z) - |grad| R - eps S =: LB, while UB = f(z).  The bracket is used only when
    it is tight (UB - LB <= 2e-5 relative); R = 10 (1 + |z| + |u0|) is an assumption (the minimiser is not further away)."""
    D = incidence(grid)
    N = cycle_basis(grid, D)
    k = N.shape[1]
    if k > 12:
        return None
    pts, ws = quadrature(grid.dim, L1[l1], nq)
    nf = int(grid.num_faces)
    vol = float(np.prod(np.asarray(grid.voxel_size, dtype=float)))
    # A[q] : (ncells, dim, nfaces) linear map face flux -> weighted cell flux at quadrature point q
    eye = np.eye(nf)
    A = []
    for p in pts:
        cols = [cell_flux(grid, eye[:, j], p) * wflat[:, None] for j in range(nf)]
        A.append(np.stack(cols, axis=2))
    scale = max(1.0, float(np.abs(u0).max()))
    S = vol * float(sum(ws)) * int(grid.num_cells)

    def f_eps(z, eps):
        u = u0 + (N @ z if k else 0.0)
        val, grad_u = 0.0, np.zeros(nf)
        for Aq, w in zip(A, ws):
            v = Aq @ u                                   # (ncells, dim)
            r = np.sqrt((v ** 2).sum(axis=1) + eps ** 2)
            val += w * r.sum()
            grad_u += w * np.einsum("cd,cdf->f", v / r[:, None], Aq)
        return vol * val, (vol * (N.T @ grad_u) if k else np.zeros(0))

    z = np.zeros(k)
    R0 = 10.0 * (1.0 + float(np.linalg.norm(u0)))
    lb, ub = -np.inf, transport_cost(grid, u0, L1[l1], wflat, nq)[0]
    for eps in [scale * 10.0 ** (-j) for j in (2, 3, 4, 5, 6, 7, 8)]:
        if k:
            for meth in ("BFGS", "CG", "BFGS"):   # restarts: a line search of BFGS may give up early next to a kink
                r = scipy.optimize.minimize(lambda x: f_eps(x, eps), z, jac=True, method=meth, options={"gtol": 1e-13 * scale, "maxiter": 2000})
                if r.fun <= f_eps(z, eps)[0]:
                    z = r.x
        fe, g = f_eps(z, eps)
        # every level yields a valid lower bound and an attained value: keep the best of each
        lb = max(lb, fe - float(np.linalg.norm(g)) * (R0 + 10.0 * float(np.linalg.norm(z))) - eps * S)
        ub = min(ub, transport_cost(grid, u0 + (N @ z if k else 0.0), L1[l1], wflat, nq)[0])
    R = R0
    if ub - lb > 2e-5 * max(1e-3, abs(ub)):
        if VERBOSE:
            print("certified_min: bracket not tight", ub, lb, float(np.linalg.norm(g)), R, eps * S)
        return None
    return lb, ub


REL = [-1]


def relations_event(darsia, rng, tid, thin=False):
    # (thin: a path of cells - the flux is unique, so the scaling relations apply whether or not the iteration converged)
    shape = rng.choice([(5,), (4, 1), (1, 6), (1, 3, 1), (7,)]) if thin else rng.choice([(3, 3), (4, 3), (2, 2, 2), (3, 2), (5,), (4, 1), (2, 3, 1), (3, 4)])
    dim = len(shape)
    XTRA = {"num_iter": 15} if thin else None       # (a path of cells: the iterate is the unique flux after the first steps)
    hs = [rng.choice([1.0, 0.5, 2.0, 0.25]) for _ in range(dim)]
    n = int(np.prod(shape))
    kind = rng.choice(["dense", "compact"])
    a1 = np.array([rng.randint(1, 5) if kind == "dense" or rng.random() < 0.4 else 0 for _ in range(n)], dtype=float)
    a2 = np.array([rng.randint(1, 5) if kind == "dense" or rng.random() < 0.4 else 0 for _ in range(n)], dtype=float)
    if a1.sum() == 0:
        a1[0] = 2.0
    if a2.sum() == 0:
        a2[-1] = 2.0
    a2 *= a1.sum() / a2.sum()
    # (every quadrature mode with every method in turn: the weighted / scaled relations go through other code for each)
    REL[0] += 1
    l1 = ["cell", "subcell", "rt"][REL[0] % 3]
    method = ["newton", "bregman"][(REL[0] // 3) % 2]
    mob = rng.choice(MOBS)
    cnum, cden = rng.choice([(2, 1), (4, 1), (1, 2), (3, 2), (5, 1)])
    c = cnum / cden
    e = {"tid": tid, "op": "relations", "shape": list(shape), "method": method, "l1": l1, "mob": mob, "cnum": cnum, "cden": cden, "raised": 0, "kind": kind,
         "self6": 0, "base6": 0, "swap6": 0, "scaled6": 0, "wscaled6": 0, "scale_applicable": 0, "wscale_applicable": 0, "moment6": 0, "min6": -1, "front6": 0, "back6": 0, "status_same": 1}
    try:
        img1, img2 = make_images(darsia, shape, hs, a1.reshape(shape), a2.reshape(shape))
        e["self6"] = d6(solve(darsia, img1, img1, method, l1, mob, extra=XTRA))
        base, conv = solve(darsia, img1, img2, method, l1, mob, status=True, extra=XTRA)
        e["base6"] = d6(base)
        e["swap6"] = d6(solve(darsia, img2, img1, method, l1, mob, extra=XTRA))
        s1, s2 = make_images(darsia, shape, hs, c * a1.reshape(shape), c * a2.reshape(shape))
        sc, conv2 = solve(darsia, s1, s2, method, l1, mob, status=True, extra=XTRA)
        e["scaled6"] = d6(sc)
        unique = sum(1 for x in shape if x > 1) <= 1     # a path of cells: no flux cycles, the flux is unique
        e["scale_applicable"] = 1 if unique else int(bool(conv) and bool(conv2))
        w = darsia.Image(np.full(shape, c), space_dim=dim, dimensions=[hs[a] * shape[a] for a in range(dim)], scalar=True)
        ws, conv3 = solve(darsia, img1, img2, method, l1, mob, weight=w, status=True, extra=XTRA)
        e["wscaled6"] = d6(ws)
        e["wscale_applicable"] = 1 if unique else int(bool(conv) and bool(conv3))
        # first moment of the mass difference (cell centres), Euclidean length
        vol = float(np.prod(hs))
        idx = np.indices(shape).reshape(dim, -1).T
        centres = (idx + 0.5) * np.array(hs)
        diff = (a2 - a1) * vol
        e["moment6"] = d6(np.linalg.norm((centres * diff[:, None]).sum(axis=0)))
        # unified front-end against the class it dispatches to
        grid = darsia.generate_grid(img1)
        opts = {"l1_mode": getattr(darsia.L1Mode, L1[l1]), "mobility_mode": getattr(darsia.MobilityMode, mob), "num_iter": 60,
                "tol_residual": 1e-10, "tol_increment": 1e-10, "tol_distance": 1e-12, "L": 1e-2 if method == "newton" else 1.0}
        cls = darsia.WassersteinDistanceNewton if method == "newton" else darsia.WassersteinDistanceBregman
        with warnings.catch_warnings():
            warnings.simplefilter("ignore")
            with np.errstate(all="ignore"):
                e["back6"] = d6(cls(grid, None, dict(opts))(img1, img2))
        e["front6"] = e["base6"]
        # one back-end object for two pairs: an easy one (identical images: the criteria are met at once), then this pair on a
        # budget that is too small to meet them - distance AND status are those the front-end returns for this pair
        if not thin:
            sopts = dict(opts, num_iter=3, return_status=True, tol_residual=1e-14, tol_increment=1e-14, tol_distance=1e-14)
            with warnings.catch_warnings():
                warnings.simplefilter("ignore")
                with np.errstate(all="ignore"):
                    easy = dict(sopts, num_iter=30)
                    for k_ in ("tol_residual", "tol_increment", "tol_distance"):
                        easy.pop(k_)                   # default tolerances: met as soon as the test is evaluated
                    live = dict(easy)
                    obj = cls(grid, None, live)
                    _, st_easy = obj(img2, img1)
                    live.clear()
                    live.update(sopts)                 # the caller tightens its options for the next pair
                    d_obj, st_obj = obj(img1, img2)
                    e["easy_converged"] = int(bool(st_easy))
                    d_fr, st_fr = darsia.wasserstein_distance(img1, img2, method=method, options=dict(sopts))
            e["status_same"] = int(bool(st_obj) == bool(st_fr) and abs(float(d_obj) - float(d_fr)) <= 1e-9 * max(1.0, abs(float(d_fr))))
        # minimum of the discrete cost over all mass-conserving fluxes (cycle space), as a certified bracket
        D = incidence(grid)
        rhs = vol * (a2 - a1).reshape(shape).ravel("F")
        u0 = np.linalg.lstsq(D.toarray(), rhs, rcond=None)[0]
        nq = int(round(len(darsia.quadrature.gauss_reference_cell(dim, "max")[1]) ** (1.0 / dim)))
        br = certified_min(darsia, grid, rhs, l1, np.ones(n), nq, u0)
        if br is not None:
            e["min6"] = d6(br[0])      # certified lower bound of the minimum (within 1e-6 relative of an attained value)
    except Exception as ex:  # noqa
        e["raised"] = 1
        e["error"] = repr(ex)[:200]
    return e


def matrix_event(darsia, rng, tid, which):
    n = rng.choice([4, 5]) if which == "emd" else 4       # (from four images on the lower triangle is not the mirrored upper one by accident)
    shape = (3, 4)
    hs = [0.5, 0.25]
    imgs = []
    for _ in range(n):
        a = np.array([rng.randint(0, 4) for _ in range(12)], dtype=float)
        a[rng.randrange(12)] += 1.0
        a *= 12.0 / a.sum()
        imgs.append(make_images(darsia, shape, hs, a.reshape(shape), a.reshape(shape))[0])
    e = {"tid": tid, "op": "matrix", "which": which, "n": n, "raised": 0, "d": [], "direct": []}
    try:
        with warnings.catch_warnings():
            warnings.simplefilter("ignore")
            with np.errstate(all="ignore"):
                if which == "emd":
                    w1 = darsia.EMD()
                else:
                    opts = {"num_iter": 12, "L": 1e-2 if which == "newton" else 1.0}
                    w1 = (darsia.WassersteinDistanceNewton if which == "newton" else darsia.WassersteinDistanceBregman)(darsia.generate_grid(imgs[0]), None, opts)
                M = np.asarray(w1.distance_matrix(list(imgs)), dtype=float)
                direct = [[0.0 if i == j else float(w1(imgs[min(i, j)], imgs[max(i, j)])) for j in range(n)] for i in range(n)]
        e["d"] = [[d6(M[i, j]) for j in range(n)] for i in range(n)] if M.shape == (n, n) else [[-1] * n] * n
        e["direct"] = [[d6(x) for x in row] for row in direct]
    except Exception as ex:  # noqa
        e["raised"] = 1
        e["error"] = repr(ex)[:200]
    return e


EMD_SHARED = {}


def emd_dense_event(darsia, rng, tid):
    """OpenCV back-end on dense pairs: mass integrals moved over physical distances - the optimum of the transport LP between the
    cell centres (supplies = pixel value x voxel volume), computed by the harness with scipy (E4 observable)."""
    import scipy.optimize
    H, W = rng.choice([(2, 3), (3, 3), (3, 4), (2, 2)])
    hs = [rng.choice([1.0, 0.5, 2.0]), rng.choice([1.0, 0.25, 3.0])]
    a1 = np.array([rng.randint(0, 4) for _ in range(H * W)], dtype=float).reshape(H, W)
    a2 = np.array([rng.randint(0, 4) for _ in range(H * W)], dtype=float).reshape(H, W)
    if a1.sum() == 0:
        a1[0, 0] = 2.0
    if a2.sum() == 0:
        a2[-1, -1] = 2.0
    a2 *= a1.sum() / a2.sum()
    e = {"tid": tid, "op": "emd", "shape": [H, W], "raised": 0, "d6": 0, "swap6": 0, "scaled6": 0, "expected6": 0, "dense": 1}
    try:
        img1, img2 = make_images(darsia, (H, W), hs, a1, a2)
        s1, s2 = make_images(darsia, (H, W), hs, 2 * a1, 2 * a2)
        emd = EMD_SHARED.setdefault("emd", darsia.EMD())
        e["d6"] = d6(darsia.wasserstein_distance(img1, img2, method="cv2.emd"))
        e["swap6"] = d6(emd(img2, img1))
        e["scaled6"] = d6(emd(s1, s2))
        vol = hs[0] * hs[1]
        idx = [(i, j) for i in range(H) for j in range(W)]
        n = len(idx)
        cost = np.array([[np.hypot((p[0] - q[0]) * hs[0], (p[1] - q[1]) * hs[1]) for q in idx] for p in idx]).ravel()
        A = np.zeros((2 * n, n * n))
        for k in range(n):
            A[k, k * n:(k + 1) * n] = 1.0          # everything leaving cell k
            A[n + k, k::n] = 1.0                    # everything arriving at cell k
        b = np.concatenate([vol * a1.ravel(), vol * a2.ravel()])
        lp = scipy.optimize.linprog(cost, A_eq=A, b_eq=b, bounds=(0, None), method="highs")
        e["expected6"] = d6(float(lp.fun)) if lp.status == 0 else -1
    except Exception as ex:  # noqa
        e["raised"] = 1
        e["error"] = repr(ex)[:160]
    return e


def emd_event(darsia, rng, tid):
    H, W = rng.choice([(3, 4), (3, 4), (2, 5), (4, 4), (rng.randint(2, 5), rng.randint(2, 5))])   # shapes recur with other voxel sizes
    hs = [rng.choice([1.0, 0.5, 2.0]), rng.choice([1.0, 0.25, 3.0])]
    p = (rng.randrange(H), rng.randrange(W))
    q = (rng.randrange(H), rng.randrange(W))
    m = rng.choice([1.0, 2.0, 0.5])
    a1 = np.zeros((H, W))
    a2 = np.zeros((H, W))
    a1[p] = m
    a2[q] = m
    e = {"tid": tid, "op": "emd", "shape": [H, W], "raised": 0, "d6": 0, "swap6": 0, "scaled6": 0, "expected6": 0}
    try:
        img1, img2 = make_images(darsia, (H, W), hs, a1, a2)
        s1, s2 = make_images(darsia, (H, W), hs, 2 * a1, 2 * a2)
        # one long-lived back-end object serves images of the same shape with other voxel sizes, as in a processing loop
        emd = EMD_SHARED.setdefault("emd", darsia.EMD()) if rng.random() < 0.7 else darsia.EMD()
        e["d6"] = d6(darsia.wasserstein_distance(img1, img2, method="cv2.emd"))
        e["swap6"] = d6(emd(img2, img1))
        e["scaled6"] = d6(emd(s1, s2))
        if not np.isclose(float(emd(img1, img2)), float(darsia.EMD()(img1, img2)), rtol=1e-9, atol=1e-12):
            e["swap6"] = -1      # the re-used object disagrees with a fresh one
        dist = float(np.hypot((p[0] - q[0]) * hs[0], (p[1] - q[1]) * hs[1]))
        e["expected6"] = d6(m * hs[0] * hs[1] * dist)
    except Exception as ex:  # noqa
        e["raised"] = 1
        e["error"] = repr(ex)[:160]
    return e


def run(ck, replay=None):
    ck.sany("MC_TransportCost", "Trace_TransportCost")
    r = ck.model_check("MC_TransportCost", f"MC_TransportCost_{ck.tier}.cfg", workers=8)
    pairs = sorted({(tuple(p[1]), tuple(p[2])) for p in r.printed("SCN")})
    darsia = import_darsia()
    rng = random.Random(ck.seed)
    quick = ck.tier == "quick"
    phase_t, phase_s = [time.time()], {}

    def tick(name):
        phase_s[name] = round(time.time() - phase_t[0], 1)
        phase_t[0] = time.time()
    from checks.wcommon import solver_twins
    ck.cov["twin_object_histories"] = solver_twins(ck, darsia, "C05", quick, methods=("newton",) if quick else ("newton", "bregman"), nkinds=1 if quick else 3)
    tick("twins")
    events = []
    sel = rng.sample(pairs, min(len(pairs), 30 if quick else 800))
    for i, (m1, m2) in enumerate(sel):
        events.append(thin_event(darsia, rng, f"thin:{i}", m1, m2))
    for i in range(4 if quick else 150):   # longer chains than the model-checking bound (all 1-D and n x 1 (x 1) grids up to 40 cells)
        n = rng.randint(7, 40)
        m1 = [rng.randint(0, 5) for _ in range(n)]
        m2 = [rng.randint(0, 5) for _ in range(n)]
        d = sum(m1) - sum(m2)
        j = rng.randrange(n)
        if d > 0:
            m2[j] += d
        else:
            m1[j] += -d
        if sum(m1) == 0:
            continue
        events.append(thin_event(darsia, rng, f"thinlong:{i}", m1, m2))
    tick("chains")
    # chains whose unique flux changes sign inside a cell (without cancelling there): the modes that evaluate the flux off the
    # cell centre, both methods, along every axis of 1-D, 2-D and 3-D grids
    for k_ in range(24):
        m1_, m2_ = ([2, 0, 1], [0, 3, 0]) if k_ % 2 == 0 else ([0, 3, 0, 2], [2, 0, 3, 0])
        events.append(thin_event(darsia, rng, f"thinsign:{k_}", m1_, m2_, force=(["subcell", "rt"][(k_ // 6) % 2], ["newton", "bregman"][(k_ // 12) % 2])))
    # nearly identical distributions: one unit of mass moved along the chain on a large common background (two consecutive
    # frames of a slow process) - the distance is that of the one unit, not zero
    for k_ in range(6):
        bg = [100000, 40000][k_ % 2]
        n_ = 4 + k_ % 2
        m1_, m2_ = [bg] * n_, [bg] * n_
        m1_[0] += 1
        m2_[-1] += 1
        events.append(thin_event(darsia, rng, f"thinnear:{k_}", m1_, m2_, force=(["cell", "subcell", "rt"][k_ % 3], ["newton", "bregman"][(k_ // 3) % 2])))
    # masses of unusual magnitude (densities of order 1e-9 and 1e6 - powers of two, so that the arithmetic stays exact)
    for k_ in range(8):
        m1_, m2_ = ([2, 0, 1, 0], [0, 2, 0, 1]) if k_ % 2 == 0 else ([1, 3, 0], [0, 1, 3])
        events.append(thin_event(darsia, rng, f"thinscale:{k_}", m1_, m2_, force=(["cell", "subcell", "rt", "cell"][k_ % 4], ["newton", "bregman"][(k_ // 2) % 2]),
                                 mscale=[2.0 ** -30, 2.0 ** 20][(k_ // 4) % 2]))
    tick("sign-chains")
    for i in range(3 if quick else 42):    # ~5-15 s each (six solver runs of up to 60 iterations)
        events.append(relations_event(darsia, rng, f"rel:{i}"))
    tick("relations")
    for i in range(6 if quick else 36):    # every quadrature mode x method on a path of cells
        events.append(relations_event(darsia, rng, f"relthin:{i}", thin=True))
    tick("thin-relations")
    for i in range(16 if quick else 150):
        events.append(emd_event(darsia, rng, f"emd:{i}"))
    for i in range(8 if quick else 100):
        events.append(emd_dense_event(darsia, rng, f"emddense:{i}"))
    tick("emd")
    # the pairwise table of a list of images (distance_matrix), for the OpenCV back-end and for both variational solvers
    for i in range(3 if quick else 9):
        events.append(matrix_event(darsia, rng, f"matrix:{i}", ["emd", "newton", "bregman"][i % 3]))
    tick("matrix")
    bad = ck.validate("Trace_TransportCost", "Trace.cfg", events, chunk=500)
    for b in bad:
        e = b["event"]
        if e["op"] == "thin":
            sig = f"C05:{b['clause']}:thin:{e['mode']}:{e['method']}:{e['mob']}:{e['cls']}"
        elif e["op"] == "relations":
            sig = f"C05:{b['clause']}:{e['method']}:{e['l1']}:{e['mob']}"
        elif e["op"] == "matrix":
            sig = f"C05:{b['clause']}:matrix:{e['which']}"
        else:
            sig = f"C05:{b['clause']}:emd"
        ck.violation(sig, f"{e['op']} violates {b['clause']}", {k: v for k, v in e.items() if k != "tid"})
    tick("validation")
    ck.cov["phase_s"] = phase_s
    ck.cov["evaluations"] = len(events)
    ck.cov["distinct_nontrivial"] = len({json.dumps({k: v for k, v in e.items() if k in ("m1", "m2", "shape", "method", "l1", "mode", "mob")}, sort_keys=True) for e in events})
    ck.cov["rule"] = "equal-mass integer pairs on chains enumerated by TLC (quick n<=4, thorough n<=6, entries 0..2) plus seeded chains up to 40 cells, each on a random thin orientation (1-D, n x 1, 1 x n, 3-D) with integer anisotropic sizes, random L1 mode / method / mobility; seeded relation cases on small 1-3-D grids (zero, swap, scaling, constant weight, first moment, certified minimum of the convex discrete cost over <= 12 flux cycles, front-end dispatch); single-cell moves for the OpenCV back-end"
    ck.cov["samples"] = [events[0], [e for e in events if e["op"] == "relations"][0]]
    ck.assumptions += ["distances are compared in 1e-6 units with 1e-5 absolute + relative tolerance; scaling clauses only for converged runs (or thin grids where the flux is unique)",
                       "the minimum of the discrete cost is bracketed by the harness (smoothed convex minimisation on the cycle space, lower bound by convexity, accepted when tight to 2e-5) - an E4 observable, not computed by TLC"]
