"""C16 — solvers and regularisers carry no hidden state between calls."""
import hashlib
import json
import os
import random
import subprocess
import sys
import tempfile
import time
import warnings

from lib.core import import_darsia, MachineryError, VERIF

LEVEL = "model_checking"


# ---------------------------------------------------------------- operations (run inside a child process)
def _digest(arr):
    import numpy as np
    a = np.asarray(arr, dtype=float).ravel()
    txt = ",".join(f"{x:.11e}" for x in a)
    return hashlib.sha1(txt.encode()).hexdigest()[:16]


_CALLER_DATA = {}


def _data(name):
    """The caller's arrays: created once per process and handed to every call that names them (a routine that writes into its
    input changes what the next call receives - seen as a result that depends on the history)."""
    import numpy as np
    if name not in _CALLER_DATA:
        rs = np.random.RandomState({"a": 1, "b": 2, "c": 3, "m": 4, "v": 5, "n": 6, "o": 7}[name])
        shape = {"a": (8, 6), "b": (5, 9), "c": (8, 6), "m": (16, 12), "v": (4, 5, 3), "n": (24, 20), "o": (12, 16)}[name]
        _CALLER_DATA[name] = rs.rand(*shape)
    return _CALLER_DATA[name]


def _pair(darsia, idx):
    import numpy as np
    rs = np.random.RandomState(10 + idx)
    shape = (4, 3)
    a1 = rs.randint(1, 5, size=shape).astype(float)
    a2 = rs.randint(1, 5, size=shape).astype(float)
    a2 *= a1.sum() / a2.sum()
    kw = dict(space_dim=2, dimensions=[2.0, 1.5], scalar=True)
    return darsia.Image(a1, **kw), darsia.Image(a2, **kw)


def execute(darsia, ctx, key):
    """Run one operation; persistent objects live in ctx (one per process)."""
    import numpy as np
    op = key.split("|")
    name = op[0]
    if name == "H1":           # H1|img|mu|omega|solver(default/explicit)
        img, mu, omega, which = _data(op[1]), float(op[2]), float(op[3]), op[4]
        if which == "default":
            return darsia.H1_regularization(img, mu=mu, omega=omega)
        s = ctx.setdefault("J5", darsia.Jacobi(maxiter=5))
        return darsia.H1_regularization(img, mu=mu, omega=omega, solver=s)
    if name in ("H1A", "SBTVDA"):   # H1A|dtype|seed, SBTVDA|dtype|seed : array-valued weight (mask / float32 / float64 field) of one shape
        rs = np.random.RandomState(int(op[2]))
        w = rs.rand(8, 6)
        w = {"bool": (w > 0.4), "int": (1 + (w > 0.4)).astype(np.int64), "float32": (0.5 + w).astype(np.float32), "float64": 0.5 + w}[op[1]]
        if name == "H1A":
            return darsia.H1_regularization(_data("a"), mu=0.5, omega=w)
        return darsia.split_bregman_tvd(_data("a"), mu=0.5, omega=w, ell=1.0, max_num_iter=4, eps=None)
    if name == "H1dim":        # H1dim|img|mu|omega|dim : default solver, spatial dimension passed per call
        return darsia.H1_regularization(_data(op[1]), mu=float(op[2]), omega=float(op[3]), dim=int(op[4]))
    if name == "JACD":         # JACD|mass|diff|dim : same coefficients and mesh size, other spatial dimension
        J = ctx.setdefault("J", darsia.Jacobi(maxiter=4))
        J.update_params(dim=int(op[3]), mass_coeff=float(op[1]), diffusion_coeff=float(op[2]))
        x0 = _data("v") if int(op[3]) == 3 else _data("a")
        return J(x0, rhs=x0 * 2.0, h=1.0)
    if name == "JACA":         # JACA|scale : array-valued coefficients, modified between calls by the caller
        J = ctx.setdefault("JA", darsia.Jacobi(maxiter=3))
        coeff = ctx.setdefault("coeff", np.ones((8, 6)))
        coeff[...] = float(op[1])
        J.update_params(dim=2, mass_coeff=1.0, diffusion_coeff=coeff)
        x0 = _data("a")
        return J(x0, rhs=x0 * 2.0, h=1.0)
    if name in ("JP", "MGP"):  # JP|dim|mass|diff|which : ONE object whose parameters are replaced ONE AT A TIME (update_params with a single
        # argument - "which" names the one this call passes; whatever else differs from the object's state is passed as well).
        # The result depends on (dim, mass, diff) only, and equals that of an object constructed with these parameters.
        want = {"dim": int(op[1]), "mass_coeff": float(op[2]), "diffusion_coeff": float(op[3])}
        if name not in ctx:
            ctx[name] = (darsia.Jacobi(maxiter=4, **want) if name == "JP" else
                         darsia.MG(depth=1, smoother_iterations=2, maxiter=2, **want))
        else:
            have = ctx[name + "state"]
            passed = {k: v for k, v in want.items() if have[k] != v or k == {"dim": "dim", "mass": "mass_coeff", "diff": "diffusion_coeff"}.get(op[4])}
            if op[4] == "all":
                passed = dict(want)
            if passed:
                ctx[name].update_params(**passed)
        ctx[name + "state"] = want
        if name == "JP":
            x0 = _data("v") if want["dim"] == 3 else _data("a")
            return ctx[name](x0, rhs=x0 * 2.0, h=1.0)
        x0 = _data("m")
        return ctx[name](x0, rhs=x0 * 2.0)
    if name == "H1img":
        img = darsia.Image(_data(op[1]), space_dim=2, dimensions=[1.0, 1.0], scalar=True)
        return darsia.H1_regularization(img, mu=float(op[2])).img
    if name == "JAC":          # JAC|mass|diff|h  on a persistent explicit object
        J = ctx.setdefault("J", darsia.Jacobi(maxiter=4))
        J.update_params(dim=2, mass_coeff=float(op[1]), diffusion_coeff=float(op[2]))
        x0 = _data("a")
        return J(x0, rhs=x0 * 2.0, h=float(op[3]))
    if name == "MG":           # MG|mass|diff
        M = ctx.setdefault("MG", darsia.MG(depth=2, smoother_iterations=3, maxiter=3, dim=2, mass_coeff=1.0, diffusion_coeff=1.0))
        M.update_params(dim=2, mass_coeff=float(op[1]), diffusion_coeff=float(op[2]))
        x0 = _data("m")
        return M(x0, rhs=x0 * 2.0)
    if name == "MGD":          # MGD|data : ONE homogeneous multigrid object called directly on arrays of several shapes, no update in between
        M = ctx.setdefault("MGD", darsia.MG(depth=1, smoother_iterations=2, maxiter=2, dim=2, mass_coeff=1.0, diffusion_coeff=0.5))
        x0 = _data(op[1])
        return M(x0, rhs=x0 * 2.0)
    if name == "JD":           # JD|data : the same for an explicit Jacobi object
        J = ctx.setdefault("JD", darsia.Jacobi(maxiter=3, dim=2, mass_coeff=1.0, diffusion_coeff=0.5))
        x0 = _data(op[1])
        return J(x0, rhs=x0 * 2.0, h=1.0)
    if name == "MGH":          # MGH|seed : multigrid with heterogeneous (array) coefficients set once at construction
        if "MGH" not in ctx:
            rs = np.random.RandomState(7)
            ctx["MGH"] = darsia.MG(depth=1, smoother_iterations=2, maxiter=2, dim=2, mass_coeff=1.0 + rs.rand(16, 12), diffusion_coeff=0.5 + rs.rand(16, 12))
        x0 = _data("m")
        return ctx["MGH"](x0, rhs=x0 * float(op[1]))
    if name == "MGU":          # MGU|mass|diff : ONE multigrid object whose coefficients are replaced for every call; "A<seed>" = array, else scalar
        rs0 = np.random.RandomState(7)
        M = ctx.setdefault("MGU", darsia.MG(depth=1, smoother_iterations=2, maxiter=2, dim=2, mass_coeff=1.0 + rs0.rand(16, 12), diffusion_coeff=0.5 + rs0.rand(16, 12)))

        def coeff(tok, base):
            return base + np.random.RandomState(int(tok[1:])).rand(16, 12) if tok.startswith("A") else float(tok)

        M.update_params(dim=2, mass_coeff=coeff(op[1], 1.0), diffusion_coeff=coeff(op[2], 0.5))
        x0 = _data("m")
        return M(x0, rhs=x0 * 2.0)
    if name == "SBTVDX":       # SBTVDX|mu : split Bregman TVD started from ONE caller-owned initial guess (image, d0, b0) kept between calls
        if "x0" not in ctx:
            rs = np.random.RandomState(11)
            ctx["x0"] = (_data("a"), 0.1 * rs.rand(8, 6, 2), 0.1 * rs.rand(8, 6, 2))
        return darsia.split_bregman_tvd(_data("a"), mu=float(op[1]), ell=1.0, max_num_iter=3, eps=None, x0=ctx["x0"])
    if name == "SBTVD":        # SBTVD|img|mu|ell
        return darsia.split_bregman_tvd(_data(op[1]), mu=float(op[2]), ell=float(op[3]), max_num_iter=4, eps=None)
    if name == "TVDO":         # TVDO|img|isotropic|ell : ONE TVD object per configuration (class route, options kept by the object), re-used
        k_ = ("TVDO", op[2], op[3])
        if k_ not in ctx:
            ctx[k_] = darsia.TVD(method="heterogeneous bregman", weight=0.4, max_num_iter=4, eps=None, isotropic=bool(int(op[2])), regularization=float(op[3]))
        return ctx[k_](_data(op[1]))
    if name == "TVD":          # TVD|img|weight
        return darsia.tvd(_data(op[1]), method="heterogeneous bregman", weight=float(op[2]), max_num_iter=4, eps=None)
    if name == "W1":           # W1|method|backend|pair   on a persistent solver object per (method, backend)
        method, backend, idx = op[1], op[2], int(op[3])
        ck = ("W1", method, backend)
        if ck not in ctx:
            grid = darsia.Grid((4, 3), [0.5, 0.5])
            ml = backend.endswith("ml")     # "amgml" / "cgml": coarsen already above 4 unknowns, so that a real multilevel hierarchy is built
            backend = backend[:-2] if ml else backend
            opts = {"num_iter": 6, "linear_solver": backend, "formulation": "pressure", "L": 1.0 if method != "newton" else 1e-2,
                    "linear_solver_options": {"atol": 1e-13, "rtol": 1e-13, "maxiter": 300}, "aa_depth": 2, "aa_restart": 3}
            if ml:
                opts["amg_options"] = {"max_coarse": 4}
            if method == "adaptive":
                opts["bregman_update"] = lambda it: it % 2 == 1
            cls = darsia.WassersteinDistanceNewton if method == "newton" else darsia.WassersteinDistanceBregman
            ctx[ck] = cls(grid, None, opts)
        a, b = _pair(darsia, idx)
        if idx == 9:           # pair 9: identical images (nothing to transport - the iteration stagnates at once)
            b = a.copy()
        with warnings.catch_warnings():
            warnings.simplefilter("ignore")
            with np.errstate(all="ignore"):
                return np.array([ctx[ck](a, b)])
    if name == "W1S":          # W1S|method|budget|pair : ONE solver object per method; the caller changes budget / tolerances in
        # its options between calls; the call returns distance AND status (both are part of the result of that call)
        method, budget, idx = op[1], op[2], int(op[3])
        ck = ("W1S", method)
        if ck not in ctx:
            live = {"verbose": False, "return_status": True, "L": 1.0 if method != "newton" else 1e-2, "formulation": "pressure", "linear_solver": "direct"}
            cls = darsia.WassersteinDistanceNewton if method == "newton" else darsia.WassersteinDistanceBregman
            ctx[ck] = (cls(darsia.Grid((4, 3), [0.5, 0.5]), None, live), live)
        obj, live = ctx[ck]
        for k_ in ("tol_residual", "tol_increment", "tol_distance"):
            live.pop(k_, None)
        if budget == "easy":
            live["num_iter"] = 12                      # default tolerances: met as soon as the stopping test is evaluated
        else:
            live.update(num_iter=3, tol_residual=1e-14, tol_increment=1e-14, tol_distance=1e-14)     # cannot be met
        a, b = _pair(darsia, idx)
        with warnings.catch_warnings():
            warnings.simplefilter("ignore")
            with np.errstate(all="ignore"):
                d, status = obj(a, b)
        return np.array([float(d), 1.0 if status else 0.0])
    if name == "AA":           # AA|scale : Anderson-accelerated fixed-point iteration over restart boundaries
        aa = ctx.setdefault("AA", darsia.AndersonAcceleration(dimension=None, depth=2, restart=3))
        c = float(op[1])
        x = np.zeros(5)
        b = np.arange(1.0, 6.0)
        for it in range(8):
            g = (0.5 * np.cos(c * x) + 0.1 * b) if c != 0.0 else x.copy()      # (AA|0.0: the iteration starts in its fixed point)
            x = aa(g, g - x, it)
        return x
    raise KeyError(key)


ALPHABET = {
    "jacobi-default": ["H1|a|1.0|1.0|default", "H1|a|0.1|1.0|default", "H1|b|1.0|2.0|default", "H1img|a|0.1", "H1|a|0.1|1.0|explicit", "H1|c|1.0|1.0|explicit"],
    "tvd-default": ["SBTVD|a|0.5|1.0", "SBTVD|a|0.2|0.4", "TVD|a|0.3", "TVD|c|0.6"],
    "jacobi-object": ["JAC|1.0|0.5|1.0", "JAC|1.0|2.0|0.5", "JAC|2.0|0.5|1.0", "JACD|1.0|0.5|2", "JACD|1.0|0.5|3"],
    "jacobi-array-coefficients": ["JACA|1.0", "JACA|3.0"],
    # coefficients and mesh sizes in SI units of very small magnitude (they differ by less than 1e-8 in absolute terms)
    "jacobi-tiny-parameters": ["JAC|1e-9|2e-9|1e-9", "JAC|2e-9|1e-9|1e-9", "JAC|1e-9|2e-9|2e-9", "H1|a|1e-9|2e-9|default", "H1|a|2e-9|1e-9|default"],
    "jacobi-default-dim": ["H1dim|a|1.0|1.0|2", "H1dim|v|1.0|1.0|3", "H1|a|1.0|1.0|default"],
    "default-array-weights": ["H1A|bool|3", "H1A|float64|4", "H1A|float32|5", "H1A|int|6", "H1|a|1.0|1.0|default"],
    "tvd-initial-guess": ["SBTVDX|0.5", "SBTVDX|0.2"],
    "tvd-array-weights": ["SBTVDA|bool|3", "SBTVDA|float64|4", "SBTVDA|float32|5", "SBTVD|a|0.5|1.0"],
    "jacobi-single-parameter": ["JP|2|1.0|0.5|all", "JP|3|1.0|0.5|dim", "JP|2|1.0|0.5|dim", "JP|2|2.0|0.5|mass", "JP|2|1.0|0.25|diff", "JP|3|2.0|0.25|all"],
    "mg-single-parameter": ["MGP|2|1.0|0.5|all", "MGP|2|2.0|0.5|mass", "MGP|2|1.0|0.25|diff", "MGP|2|1.0|0.5|dim"],
    "tvd-object": ["TVDO|a|1|1.0", "TVDO|c|1|1.0", "TVDO|a|0|0.5", "TVDO|c|0|0.5"],
    "mg-object": ["MG|1.0|1.0", "MG|1.0|0.1"],
    "mg-heterogeneous": ["MGH|2.0", "MGH|3.0"],
    "mg-direct-shapes": ["MGD|m", "MGD|n", "MGD|o"],
    "jacobi-direct-shapes": ["JD|a", "JD|b", "JD|m"],
    "mg-coefficients-replaced": ["MGU|A3|A4", "MGU|2.0|0.7", "MGU|2.0|A4", "MGU|A5|0.7"],
    "newton-direct": ["W1|newton|direct|0", "W1|newton|direct|1", "W1|newton|direct|9"],
    "bregman-amg": ["W1|bregman|amg|0", "W1|bregman|amg|1", "W1|bregman|amg|9"],
    "newton-amg-multilevel": ["W1|newton|amgml|0", "W1|newton|amgml|1", "AA|1.0"],
    "bregman-cg-multilevel": ["W1|bregman|cgml|0", "W1|bregman|cgml|1"],
    "bregman-adaptive": ["W1|adaptive|direct|0", "W1|adaptive|direct|1", "W1|adaptive|direct|9"],
    "anderson": ["AA|1.0", "AA|2.0", "AA|0.0"],
    "newton-status": ["W1S|newton|easy|0", "W1S|newton|tight|1", "W1S|newton|tight|0"],
    "bregman-status": ["W1S|bregman|easy|0", "W1S|bregman|tight|1", "W1S|bregman|tight|0"],
}


def child_main(seq, out):
    darsia = sys.modules["darsia"]
    ctx, res = {}, []
    for key in seq:
        try:
            with warnings.catch_warnings():
                warnings.simplefilter("ignore")
                r = execute(darsia, ctx, key)
            res.append({"key": key, "digest": _digest(r), "raised": 0})
        except Exception as ex:  # noqa
            res.append({"key": key, "digest": "", "raised": 1, "error": repr(ex)[:160]})
    with open(out, "w") as f:
        json.dump(res, f)


def run_forked(seqs, workdir, par=12):
    """Each sequence runs in a child forked from the pristine parent (darsia imported, nothing called)."""
    results, running, todo = {}, {}, list(enumerate(seqs))
    while todo or running:
        while todo and len(running) < par:
            i, seq = todo.pop(0)
            out = os.path.join(workdir, f"seq{i}.json")
            pid = os.fork()
            if pid == 0:
                try:
                    child_main(seq, out)
                finally:
                    os._exit(0)
            running[pid] = (i, out)
        pid, _ = os.wait()
        i, out = running.pop(pid)
        try:
            results[i] = json.load(open(out))
        except Exception:
            results[i] = [{"key": k, "digest": "", "raised": 1, "error": "child crashed"} for k in seqs[i]]
    return [results[i] for i in range(len(seqs))]


def run_fresh_interpreter(keys, par=8):
    """True fresh interpreters (one per key), as a cross-check of the forked-pristine-process shortcut."""
    code = ("import sys, json; sys.path.insert(0, %r); sys.path.insert(0, %r)\n"
            "import warnings; warnings.filterwarnings('ignore')\n"
            "import darsia, checks.c16 as c\n"
            "r = c.execute(darsia, {}, sys.argv[1]); print('DIGEST', c._digest(r))\n") % (VERIF, os.path.join(os.environ.get("DARSIA_REPO", "/repo"), "src"))
    procs = [(k, subprocess.Popen([sys.executable, "-W", "ignore", "-c", code, k], stdout=subprocess.PIPE, stderr=subprocess.PIPE, text=True)) for k in keys]
    out = {}
    for k, p in procs:
        so, se = p.communicate(timeout=600)
        d = [ln.split()[1] for ln in so.splitlines() if ln.startswith("DIGEST")]
        out[k] = d[0] if d else None
    return out


def letter_to_key(letter):
    obj, mu, h = letter
    if obj == "default":
        return f"H1|a|{mu / 10:.1f}|1.0|default"
    return f"JAC|1.0|{mu / 10:.1f}|{float(h):.1f}"


def anderson_whitebox(ck, darsia):
    """White-box conformance of AndersonAcceleration's column bookkeeping with Anderson.tla (drift / observation only)."""
    import numpy as np
    ck.sany("Anderson")
    notes = []
    for depth, restart in [(2, 3), (2, 4), (3, 0), (3, 5), (1, 2)]:
        cfg = os.path.join(ck.work, f"Anderson_{depth}_{restart}.cfg")
        with open(cfg, "w") as f:
            f.write(f"SPECIFICATION Spec\nCONSTANTS Depth = {depth}\n Restart = {restart}\n MaxK = 9\nINVARIANT Emit\nCHECK_DEADLOCK FALSE\n")
        r = ck.tlc("Anderson", cfg, workers=1, label="anderson-model")
        model = {p[1]: set(p[2]) for p in r.printed("COLS")}
        cfg2 = os.path.join(ck.work, f"Anderson_{depth}_{restart}_used.cfg")
        with open(cfg2, "w") as f:
            f.write(f"SPECIFICATION Spec\nCONSTANTS Depth = {depth}\n Restart = {restart}\n MaxK = 9\nINVARIANT UsedColumnsValid\nCHECK_DEADLOCK FALSE\n")
        r2 = ck.tlc("Anderson", cfg2, workers=1, label="anderson-observation", expect_ok=False)
        if r2.violated:
            notes.append(f"depth={depth}, restart={restart}: a zero column enters the least-squares mix after a restart (unaccelerated step)")
        aa = darsia.AndersonAcceleration(dimension=None, depth=depth, restart=restart if restart else None)
        rs = np.random.RandomState(depth * 10 + restart)
        x = rs.rand(6)
        for k in range(10):
            g = 0.5 * np.cos(x) + rs.rand(6) * 0.1
            x = aa(g, g - x, k)
            real = {c for c in range(depth) if np.any(aa._Fk[:, c] != 0)}
            if model.get(k + 1) is not None and real != model[k + 1]:
                ck.note(f"MODEL-DRIFT: Anderson(depth={depth}, restart={restart}) after call {k}: non-zero history columns {sorted(real)} vs model {sorted(model[k + 1])}")
    if notes:
        ck.cov["anderson_observations"] = notes
        print("OBSERVATION (not a listed property): " + "; ".join(notes))


def mg_levels(ck, darsia):
    """Growth beyond the listed properties (spec/MGLevels.tla): extents of the multigrid levels.  For every (n, depth) of the
    model the real restriction is applied depth+1 times and the prolongation once per level: the extents must be the model's."""
    import numpy as np
    ck.sany("MGLevels")
    r = ck.model_check("MGLevels", "MGLevels.cfg", workers=1)
    rows = [(p[1], p[2], list(p[3])) for p in r.printed("MGL")]
    mg = darsia.MG(depth=1, smoother_iterations=1, maxiter=1, dim=2, mass_coeff=1.0, diffusion_coeff=1.0)
    agree, empties = 0, 0
    for n, d, L in rows:
        x = np.zeros((n, 3))
        got = [n]
        ok = True
        for _ in range(d + 1):
            x = mg.restriction(x)
            got.append(int(x.shape[0]))
        # on the way up: prolongation doubles, the pad brings it to the extent of the level
        for i in range(len(got) - 1, 0, -1):
            up = mg.prolongation(np.zeros((got[i], max(1, 3 // 2 ** i)))).shape[0]
            ok = ok and up == 2 * got[i] and 0 <= got[i - 1] - up <= 1
        agree += int(got == L and ok)
        empties += int(L[-1] == 0)
    ck.cov["mg_levels"] = {"cases": len(rows), "implementation_matches_model": agree, "cases_with_empty_coarsest_level": empties}
    if rows and agree == len(rows):
        print(f"OBSERVATION (not a listed property): multigrid level extents follow MGLevels.tla on all {len(rows)} (extent, depth) pairs; "
              f"in {empties} of them the coarsest level is empty (extent < 2^(depth+1)), i.e. the V-cycle recurses onto an empty array")
    elif rows:
        ck.note(f"MGLevels: restriction / prolongation follow the model on {agree} of {len(rows)} pairs (as-built model needs updating)")


def run(ck, replay=None):
    ck.sany("JacobiImpl", "Stateless")
    r = ck.model_check("JacobiImpl", "JacobiImpl_fixed.cfg", workers=2)
    model_hists = [[tuple(x) for x in p[1]] for p in r.printed("SCN")]
    reg = ck.tlc("JacobiImpl", "JacobiImpl_asbuilt.cfg", workers=1, expect_ok=False, label="regression-model")
    if "DependsOnlyOnArguments" not in reg.violated:
        raise MachineryError("JacobiImpl no longer rejects the cached-diagonal rule (vacuity guard)")
    mg_levels(ck, import_darsia())
    # parameters replaced one at a time on a living solver object (SolverParams.tla): TLC's histories become call sequences
    ck.sany("SolverParams")
    rp = ck.model_check("SolverParams", "SolverParams_fixed.cfg", workers=2)
    param_hists = sorted({tuple(tuple(x) for x in p[1]) for p in rp.printed("SCN")})
    regp = ck.tlc("SolverParams", "SolverParams_percoefficient.cfg", workers=1, expect_ok=False, label="regression-model")
    if "CallUsesCurrentParameters" not in regp.violated:
        raise MachineryError("SolverParams no longer rejects a diagonal kept across a change of dimension (vacuity guard)")
    rng = random.Random(ck.seed)
    quick = ck.tier == "quick"
    allkeys = sorted({k for v in ALPHABET.values() for k in v})
    if replay:
        seqs = [c["sequence"] for c in json.load(open(replay))["cases"]]
    else:
        seqs = []
        # TLC's histories over the Jacobi letters (quick: all of length <= 2 and a sample of longer ones)
        mh = [h for h in model_hists if len(h) <= 2] + rng.sample([h for h in model_hists if len(h) > 2], 25 if quick else 500)
        seqs += [[letter_to_key(x) for x in h] for h in mh]
        ph = [h for h in param_hists if len(h) >= 2]
        for h in rng.sample(ph, min(len(ph), 40 if quick else 800)):
            obj = rng.choice(["JP", "JP", "MGP"])
            if obj == "MGP" and any(x[1] != 2 for x in h):
                obj = "JP"          # the multigrid transfer operators are two-dimensional
            seqs.append([f"{obj}|{x[1]}|{float(x[2]):.1f}|{x[3] / 4:.2f}|{x[0]}" for x in h])
        # every ordered pair inside a family that shares an object, plus seeded longer mixtures
        for fam, keys in ALPHABET.items():
            for a in keys:
                for b in keys:
                    seqs.append([a, b])
        for _ in range(15 if quick else 400):
            n = rng.randint(3, 4)
            fam = rng.choice(list(ALPHABET))
            pool = ALPHABET[fam] + rng.sample(allkeys, 2)
            seqs.append([rng.choice(pool) for _ in range(n)])
        # two different solver OBJECTS used alternately (a, b, a): every ordered pair of the multigrid families (each family
        # owns one object with its own depth / smoothing steps / coefficients), and a sample over all object families
        mgf = [f for f in ALPHABET if f.startswith("mg-")]
        for fa in mgf:
            for fb in mgf:
                if fa != fb:
                    seqs.append([ALPHABET[fa][0], ALPHABET[fb][-1], ALPHABET[fa][0]])
        objf = [f for f in ALPHABET if f.startswith(("mg-", "jacobi-", "tvd-"))]
        pairs = [(fa, fb) for fa in objf for fb in objf if fa != fb and not (fa in mgf and fb in mgf)]
        for fa, fb in rng.sample(pairs, min(len(pairs), 25 if quick else len(pairs))):
            seqs.append([rng.choice(ALPHABET[fa]), rng.choice(ALPHABET[fb]), rng.choice(ALPHABET[fa])])
        # reordering independent calls
        for _ in range(5 if quick else 60):
            s = rng.sample(allkeys, 4)
            seqs.append(s)
            seqs.append(list(reversed(s)))
    fresh = [[k] for k in sorted({k for s in seqs for k in s})]
    work = tempfile.mkdtemp(prefix="c16-", dir=ck.work)
    t0 = time.time()
    fres = run_forked(fresh, work)
    sres = run_forked(seqs, work)
    events = []
    for rs in fres:
        events.append(dict(rs[0], tid="fresh:" + rs[0]["key"], pos=0, prev=""))
    real = run_fresh_interpreter(rng.sample([f[0] for f in fresh], 3 if quick else len(fresh)))
    for k, d in real.items():
        events.append({"tid": "interpreter:" + k, "key": k, "digest": d or "", "raised": int(d is None), "pos": 0, "prev": ""})
    info = {}
    for i, (seq, rs) in enumerate(zip(seqs, sres)):
        tid = f"s{i}"
        info[tid] = seq
        for j, e in enumerate(rs):
            events.append(dict(e, tid=tid, pos=j, prev=seq[j - 1] if j else ""))
    anderson_whitebox(ck, sys.modules["darsia"])
    bad = ck.validate("Stateless", "Trace.cfg", events)
    for b in bad:
        e = b["event"]
        fam = [f for f, ks in ALPHABET.items() if e["key"] in ks]
        sig = f"C16:{b['clause']}:{e['key'].split('|')[0]}:after:{e['prev'].split('|')[0] if e['prev'] else 'fresh'}"
        ck.violation(sig, f"{e['key']} returned a different result after {e['prev'] or 'nothing'} than in a fresh process ({b['clause']})",
                     {"sequence": info.get(b["tid"], [e["key"]]), "position": e["pos"], "error": e.get("error")})
    ck.cov["evaluations"] = sum(len(s) for s in seqs) + len(fresh)
    ck.cov["distinct_nontrivial"] = len({tuple(s) for s in seqs if len(s) >= 2})
    ck.cov["rule"] = "call sequences: TLC's histories over the Jacobi letters (JacobiImpl, all <= 4), every ordered pair inside each family sharing an object or default instance, seeded mixtures and reordered independent calls; each executed in a process forked from a pristine interpreter; first calls also in true fresh interpreters; non-trivial = sequence with >= 2 calls"
    ck.cov["model_histories"] = len(model_hists)
    ck.cov["samples"] = [seqs[0], seqs[len(seqs) // 2], seqs[-1]]
    ck.assumptions += ["digests compare results rounded to 12 significant digits; single-threaded BLAS/numba",
                       "a process forked from the parent before any library call stands for a fresh interpreter (cross-checked against real fresh interpreters for a sample of keys)"]
