"""C03 — geometric integration is the weighted voxel sum at any resolution and history."""
import itertools
import json
import math
import random

import numpy as np

from lib.core import import_darsia, quantize_int, MachineryError

LEVEL = "model_checking"
BADINT = 99999999
RES = {"native": 1.0, "coarser": 0.5, "finer": 2.0, "other": 0.25}
NATIVE = {1: (8,), 2: (4, 8), 3: (4, 4, 4)}
KINDS = ["plain", "weighted-scalar", "weighted-array", "extruded-scalar", "extruded-array", "porous-scalar",
         "porous-array", "extporous-ff", "extporous-aa", "extporous-ai", "extporous-if", "extporous-ii"]


def build_geometry(darsia, rng, kind, dim, n, h, use_voxel_size):
    """Returns (geometry, effective integer weight array at native resolution)."""
    kw = dict(space_dim=dim, num_voxels=tuple(n))
    if use_voxel_size:
        kw["voxel_size"] = list(h)
    else:
        kw["dimensions"] = [h[a] * n[a] for a in range(dim)]
    ones = np.ones(n)

    def arr():
        return np.array([rng.randint(1, 3) for _ in range(int(np.prod(n)))], dtype=float).reshape(n)

    def image(a):
        return darsia.Image(a.copy(), space_dim=dim, dimensions=[h[i] * n[i] for i in range(dim)], scalar=True)

    if kind == "plain":
        return darsia.Geometry(**kw), ones
    name, _, form = kind.partition("-")
    if name in ("weighted", "extruded", "porous"):
        cls = {"weighted": darsia.WeightedGeometry, "extruded": darsia.ExtrudedGeometry, "porous": darsia.PorousGeometry}[name]
        if form == "scalar":
            s = float(rng.randint(2, 3))
            return cls(s, **kw), s * ones
        a = arr()
        return cls(a, **kw), a
    # extruded porous: porosity and depth as float / array / Image
    vals, weights = [], []
    for f in form:
        if f == "f":
            s = float(rng.randint(1, 3))
            vals.append(s)
            weights.append(s * ones)
        else:
            a = arr()
            vals.append(a if f == "a" else image(a))
            weights.append(a)
    return darsia.ExtrudedPorousGeometry(vals[0], vals[1], **kw), weights[0] * weights[1]


def is_array_kind(kind):
    return kind.endswith("-array") or (kind.startswith("extporous") and kind != "extporous-ff")


LAY = [0]
NMAG = [-1]


def run_history(darsia, rng, tid, kind, dim, hist, h, payload, as_image, use_voxel_size, mixed=None):
    n = NATIVE[dim]
    res = dict(RES)
    base = tuple(x // 4 for x in n)
    if dim == 2 and (rng.random() < 0.35 if mixed is None else bool(mixed)):
        # native extents with several prime factors: the coarser resolutions (1/2 and 1/3) are not refinements of one another,
        # so that a history can walk through partitions that are not nested
        n, res, base = (6, 12), dict(RES, other=1.0 / 3), (1, 2)
    geom, w = build_geometry(darsia, rng, kind, dim, n, h, use_voxel_size)
    D = 2 ** dim
    unit = float(np.prod(h)) / D
    nsl = {"scalar": (), "vector": (2,), "series": (3,), "vseries": (2, 2)}[payload]
    ev = []
    # per history every resolution name stands for one resolution; besides the isotropic factor it may be refined along
    # some axes and kept / coarsened along others (factors per axis in {1/2, 1, 2}, not all 1; 2-D and 3-D)
    factors = {}
    for rname in set(hist):
        f = tuple(res[rname] for _ in n)
        if rname != "native" and dim >= 2 and (rng.random() < 0.4 if mixed is None else mixed == "axes"):
            while True:
                f = tuple(rng.choice([0.5, 1, 2] + ([1.0 / 3] if n == (6, 12) else [])) for _ in n)
                if any(x != 1 for x in f) and f not in factors.values():
                    break
        if mixed == "axes" and rname == "other":
            f = rng.choice([(1.0 / 3, 2), (2, 1.0 / 3)])
        factors[rname] = f
    payload0, as_image0 = payload, as_image
    for i, rname in enumerate(hist):
        r = tuple(int(round(x * fx)) for x, fx in zip(n, factors[rname]))
        # payload layout and input form vary from call to call on the same geometry object
        if i > 0 and rng.random() < 0.5:
            payload, as_image = rng.choice(["scalar", "vector", "series", "vseries"]), rng.random() < 0.5
        else:
            payload, as_image = payload0, as_image0
        nsl = {"scalar": (), "vector": (2,), "series": (3,), "vseries": (2, 2)}[payload]
        # (every fourth call: trailing axes of length one - a series with a single time step, one component: the result keeps
        # one entry per time step and component, i.e. these axes)
        LAY[0] += 1
        if nsl and LAY[0] % 4 == 0:
            nsl = tuple(1 for _ in nsl)
        # field: constant on the coarsest partition, per slice
        nslices = int(np.prod(nsl)) if nsl else 1
        # ... or, every other call, an arbitrary field at the resolution of the call (the sum of data times effective volume
        # does not need the field to be the refinement of a coarser one)
        fbase = base if rng.random() < 0.5 else r
        fields = [np.array([rng.randint(0, 5) for _ in range(int(np.prod(fbase)))], dtype=float).reshape(fbase) for _ in range(nslices)]
        slices = []
        for f in fields:
            d = f
            for a in range(dim):
                d = np.repeat(d, r[a] // fbase[a], axis=a)
            slices.append(d)
        data = np.stack(slices, axis=-1).reshape(r + nsl) if nsl else slices[0]
        arg = data
        if as_image:
            ikw = dict(space_dim=dim, dimensions=[h[a] * n[a] for a in range(dim)])
            if payload in ("scalar", "series"):
                ikw["scalar"] = True
            if payload in ("series", "vseries"):
                ikw.update(series=True, time=[float(t) for t in range(nsl[0])])
            arg = darsia.Image(data.copy(), **ikw)
        e = {"tid": tid, "i": i, "op": "integrate", "kind": kind, "resname": rname, "payload": payload, "as_image": int(as_image),
             "n": list(n), "r": list(r), "D": D, "w": [int(x) for x in w.ravel()],
             "data": [[int(x) for x in s.ravel()] for s in slices], "raised": 0, "val": []}
        try:
            val = geom.integrate(arg)
        except ValueError as ex:
            if is_array_kind(kind) and dim != 2 and r != tuple(n) and "only supported in 2d" in str(ex):
                ev.append({"tid": tid, "i": i, "op": "rejected", "documented": 1, "kind": kind})
                continue
            e["raised"] = 1
            e["error"] = repr(ex)[:200]
            ev.append(e)
            continue
        except Exception as ex:
            e["raised"] = 1
            e["error"] = repr(ex)[:200]
            ev.append(e)
            continue
        vals = np.atleast_1d(np.asarray(val, dtype=float)).ravel()
        if tuple(np.shape(val)) != tuple(nsl):
            # the layout of the result: one entry per time step and component, shaped like the trailing axes of the data
            vals = np.full(max(1, len(vals)) + 1, np.nan)
        q = []
        for v in vals:
            k = quantize_int(v / unit, 1e-6) if np.isfinite(v) else None
            q.append(BADINT if k is None else k)
        e["val"] = q
        ev.append(e)
    return ev


def _exp10(rel):
    return 3 if not math.isfinite(rel) else int(max(-17, min(3, math.ceil(math.log10(max(rel, 1e-17))))))


def normalize_event(darsia, rng, tid, dim):
    """normalize(img, ref): per time step and component the integral of the result equals the reference's.  Signed integer data
    (difference images have negative net integrals), all payload layouts; precondition: no integral of img is zero."""
    n = NATIVE[dim]
    h = [rng.choice([0.5, 0.1, 0.25]) for _ in range(dim)]
    # (voxel sizes in turn: ordinary; micrometres - integrals of order 1e-9 and below; kilometres)
    NMAG[0] += 1
    h = [x * [1.0, 2e-6, 1e3][NMAG[0] % 3] for x in h]
    geom, w = build_geometry(darsia, rng, rng.choice(["plain", "weighted-scalar", "weighted-array"]), dim, n, h, False)
    layout = rng.choice(["scalar", "series", "vector", "vseries"])
    tail = {"scalar": (), "series": (3,), "vector": (2,), "vseries": (3, 2)}[layout]
    kw = dict(space_dim=dim, dimensions=[h[a] * n[a] for a in range(dim)], scalar=layout in ("scalar", "series"))
    if layout in ("series", "vseries"):
        kw.update(series=True, time=[0, 1, 2])
    wfull = w.reshape(tuple(n) + (1,) * len(tail))

    def integrals(arr):
        return [int(round(x)) for x in np.sum(arr * wfull, axis=tuple(range(dim))).ravel()]

    def im(sign):
        for _ in range(50):
            arr = np.array([rng.randint(-9, 9) if sign else rng.randint(1, 9) for _ in range(int(np.prod(list(n) + list(tail))))], dtype=float).reshape(tuple(n) + tail)
            if all(i != 0 for i in integrals(arr)):
                return arr
        raise MachineryError("no admissible normalize scenario")

    signed = rng.random() < 0.8
    a_arr, r_arr = im(signed), im(signed)
    fdt = rng.choice([np.float64, np.float64, np.float32])      # floating pixel types (integer-valued data: exact in both)
    a, ref = darsia.Image(a_arr.astype(fdt), **kw), darsia.Image(r_arr.astype(fdt), **kw)
    e = {"tid": tid, "op": "normalize", "layout": layout, "ia": integrals(a_arr), "iref": integrals(r_arr), "raised": 0, "relexp": [], "ratioexp": [],
         "dtype": np.dtype(fdt).name, "inputs_unchanged": 0, "scaledexp": 3, "dtype_kept": 0}
    if rng.random() < 0.5:      # the geometry object has been used before (at another resolution, if it supports it)
        try:
            geom.integrate(np.ones(tuple(max(1, x // 2) for x in n)))
        except Exception:  # noqa
            pass
    try:
        out, ratio = geom.normalize(a, ref, return_ratio=True)
    except Exception as ex:  # noqa
        e["raised"] = 1
        e["error"] = repr(ex)[:200]
        return e
    e["inputs_unchanged"] = int(np.array_equal(a.img, a_arr.astype(fdt)) and np.array_equal(ref.img, r_arr.astype(fdt)) and a.img.dtype == fdt and ref.img.dtype == fdt)
    e["dtype_kept"] = int(out.img.dtype == fdt)
    rb = np.broadcast_to(np.asarray(ratio, dtype=float), tail) if tail else float(ratio)
    e["scaledexp"] = _exp10(float(np.abs(out.img.astype(float) - a_arr * rb).max()) / max(1e-300, float(np.abs(a_arr * rb).max())))
    vol = float(np.prod(h))
    i_out = np.sum(out.img * wfull, axis=tuple(range(dim))).ravel()
    ratio = np.broadcast_to(np.asarray(ratio, dtype=float), np.zeros(tail).shape).ravel() if tail else np.atleast_1d(np.asarray(ratio, dtype=float))

    def ex10(rel):
        return 3 if not math.isfinite(rel) else int(max(-17, min(3, math.ceil(math.log10(max(rel, 1e-17))))))

    for k in range(len(e["ia"])):
        e["relexp"].append(ex10(abs(i_out[k] - e["iref"][k]) / abs(e["iref"][k])))
        e["ratioexp"].append(ex10(abs(ratio[k] * e["ia"][k] - e["iref"][k]) / abs(e["iref"][k])))
    return e


def run(ck, replay=None):
    ck.sany("GeometryImpl", "MC_Geometry", "Trace_Geometry")
    # design-level: the cache rules of the current tree are history independent; the pre-fix rule is not
    ck.model_check("GeometryImpl", "GeometryImpl_fixed.cfg", workers=2)
    r = ck.model_check("GeometryImpl", "GeometryImpl_array.cfg", workers=1)
    hists = sorted({tuple(p[1]) for p in r.printed("SCN") if p[1]}, key=lambda hh: (len(hh), hh))
    bad_rule = ck.tlc("GeometryImpl", "GeometryImpl_asbuilt.cfg", workers=1, expect_ok=False, label="regression-model")
    if "HistoryIndependent" not in bad_rule.violated:
        raise MachineryError("GeometryImpl no longer distinguishes the stale-cache rule (vacuity guard)")
    ck.model_check("MC_Geometry", "MC_Geometry.cfg", workers=4)
    darsia = import_darsia()
    rng = random.Random(ck.seed)
    quick = ck.tier == "quick"
    # two geometries on the same voxel grid with other weight maps, used at native and foreign resolutions along every
    # interleaving of spec/TwoObjects.tla: each integrates with ITS effective volumes
    from lib import twoobj
    thists = twoobj.histories(ck)
    ntwin = 0
    tspecs = []
    for gkind in ("weighted", "extporous"):
        n2 = (4, 6)
        wa, wb = 1.0 + np.arange(24.0).reshape(n2) % 5, 2.0 + np.arange(24.0).reshape(n2) % 3

        def make(o, gkind=gkind, wa=wa, wb=wb, n2=n2):
            w_ = (wa if o == "a" else wb).copy()
            kw = dict(space_dim=2, num_voxels=n2, dimensions=[2.0, 3.0])
            return darsia.WeightedGeometry(w_, **kw) if gkind == "weighted" else darsia.ExtrudedPorousGeometry(w_, np.ones(n2) * (1.0 if o == "a" else 0.5), **kw)

        def use(o, g, n2=n2):
            out = []
            for r_ in ((2, 3), n2, (8, 12), (2, 3)):
                out.append(float(g.integrate(1.0 + np.arange(float(r_[0] * r_[1])).reshape(r_))))
            return out

        sel = thists if not quick else [h for h in thists if len(h) <= 4]
        tspecs.append((sel, "geometry-" + gkind, make, use, lambda x, y: np.allclose(x, y, rtol=1e-9), "twin:" + gkind))
    ntwin = twoobj.run(ck, "C03", tspecs)
    ck.cov["twin_object_histories"] = ntwin
    # one geometry integrating again after calls it rejected (spec/FailedCalls.tla), in 1, 2 and 3 dimensions: a rejected
    # call (foreign resolution where only 2-D supports it, data of another dimension, no data) leaves no trace
    from lib import failedcalls
    fhists = failedcalls.histories(ck)
    fspecs = []
    for gkind in ("weighted", "extporous", "porous", "extruded"):
        for nv in ((6,), (4, 6), (2, 3, 4)):
            dim = len(nv)
            wgt = 1.0 + np.arange(float(np.prod(nv))).reshape(nv) % 5

            def fmake(gkind=gkind, nv=nv, dim=dim, wgt=wgt):
                kw = dict(space_dim=dim, num_voxels=nv, dimensions=[1.0 + d for d in range(dim)])
                if gkind == "weighted":
                    return darsia.WeightedGeometry(wgt.copy(), **kw)
                if gkind == "porous":
                    return darsia.PorousGeometry(wgt.copy() / 8, **kw)
                if gkind == "extruded":
                    return darsia.ExtrudedGeometry(wgt.copy(), **kw)
                return darsia.ExtrudedPorousGeometry(wgt.copy() / 8, np.ones(nv) * 0.5, **kw)

            def fuse(g, nv=nv, dim=dim):
                shapes = [nv, nv] + ([(2, 3), (8, 12), nv] if dim == 2 else [])
                return [float(g.integrate(1.0 + np.arange(float(np.prod(r_))).reshape(r_))) for r_ in shapes]

            foreign = tuple(2 * n for n in nv)
            bads = [lambda foreign=foreign: np.ones(foreign), lambda nv=nv: np.ones(nv + (2, 2, 2))[..., 0, :, :][..., :0], lambda: None, lambda: "no data",
                    lambda nv=nv: np.ones(tuple(n + 1 for n in nv) + (3,))[0]]
            for bi, bad in enumerate(bads):
                fspecs.append((fhists, f"geometry-{gkind}-{dim}d-bad{bi}", fmake, fuse, lambda g, bad=bad: g.integrate(bad()),
                               lambda x, y: np.allclose(x, y, rtol=1e-9), f"failed:{gkind}:{dim}:{bi}"))
    ck.cov["failed_call_histories"] = failedcalls.run(ck, "C03", fspecs)
    if replay:
        cases = [tuple(c["case"]) for c in json.load(open(replay))["cases"]]
        cases = [(c[0], c[1], tuple(c[2]), c[3], c[4], bool(c[5]), bool(c[6])) + tuple(c[7:]) for c in cases]
    else:
        short = [hh for hh in hists if len(hh) <= (2 if quick else 3)]
        longer = [hh for hh in hists if len(hh) > (2 if quick else 3)]
        sel = short + rng.sample(longer, min(len(longer), 40 if quick else 600))
        cases = []
        for hh in sel:
            for _ in range(1 if quick else 2):
                dim = rng.choice([1, 2, 2, 2, 3])
                kind = rng.choice(KINDS)
                hv = [rng.choice([0.5, 0.25, 1.0, 0.1, 0.3 / 7]) for _ in range(dim)]
                cases.append((kind, dim, hh, hv, rng.choice(["scalar", "scalar", "vector", "series", "vseries"]),
                              rng.random() < 0.5, rng.random() < 0.3))
        # every kind in 2-D on the two shortest discriminating histories
        for kind in KINDS:
            for hh in [("coarser", "native"), ("finer", "native", "other", "native")]:
                cases.append((kind, 2, hh, [0.5, 0.25], rng.choice(["scalar", "vector", "series"]), rng.random() < 0.5, False))
            # partitions that are not nested (native 6 x 12: halves, then thirds), isotropic and per axis
            for hh in [("coarser", "other"), ("coarser", "other", "native", "other", "coarser")]:
                cases.append((kind, 2, hh, [0.5, 0.25], rng.choice(["scalar", "vector", "series"]), rng.random() < 0.5, False, True))
            # ... and resolutions refined along one axis while coarsened (by 2 or 3) along the other
            for hh in [("coarser", "other"), ("finer", "coarser", "other", "native", "other")]:
                cases.append((kind, 2, hh, [0.5, 0.25], rng.choice(["scalar", "vector", "series"]), rng.random() < 0.5, False, "axes"))
    events, info = [], {}
    for i, c in enumerate(cases):
        tid = f"h{i}"
        info[tid] = c
        events += run_history(darsia, rng, tid, *c)
    for i in range(12 if quick else 80):
        events.append(normalize_event(darsia, rng, f"norm{i}", rng.choice([1, 2, 3])))
    bad = ck.validate("Trace_Geometry", "Trace.cfg", events, weight=lambda e: 5 + len(e.get("w", [])) * max(1, len(e.get("data", []))), budget=40000)
    for b in bad:
        e = b["event"]
        if b["clause"] == "HarnessScenario":
            raise MachineryError(f"bad scenario {e}")
        c = info.get(b["tid"])
        if e["op"] == "integrate":
            arrk = "array" if is_array_kind(e["kind"]) else "scalar"
            multi = "multislice" if len(e["data"]) > 1 else "single"
            prev = "after:" + (c[2][e["i"] - 1] if e["i"] > 0 else "fresh")
            sig = f"C03:{b['clause']}:{arrk}-volume:{multi}:{e['resname']}:{prev}"
        else:
            sig = f"C03:{b['clause']}:{e['op']}"
        ck.violation(sig, f"integrate violates {b['clause']} (kind {e.get('kind')}, resolution {e.get('resname')}, call #{e.get('i')})",
                     {"case": list(c) if c else None, "call": e.get("i"), "error": e.get("error"), "val": e.get("val")})
    ck.cov["evaluations"] = len(events)
    ck.cov["distinct_nontrivial"] = len({(c[0], c[1], c[2]) for c in cases if len(set(c[2])) > 1})
    ck.cov["rule"] = "histories enumerated by TLC (GeometryImpl, all sequences <= 5 over 4 resolutions); quick replays all of length <= 2 and a seeded sample of longer ones on seeded geometry kinds/dims/payloads; non-trivial = history with at least two different resolutions"
    ck.cov["histories_enumerated"] = len(hists)
    ck.cov["samples"] = [list(map(str, cases[0])), list(map(str, cases[len(cases) // 2])), {k: v for k, v in events[0].items() if k not in ("w", "data")}]
    ck.assumptions += ["values are compared in units of native voxel volume / 2^dim after a near-integer test (1e-6 relative)",
                       "weights are small integers (porosity*depth may exceed 1: integration is linear in the weight)"]
