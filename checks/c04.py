"""C04 — Wasserstein solvers: mass balance, self-consistent results, status under injected faults."""
import contextlib
import io
import json
import random
import warnings

import numpy as np

from lib.core import import_darsia, MachineryError
from checks.wcommon import exponent, incidence, cell_flux, transport_cost, make_images, random_masses

LEVEL = "fault_enumeration"


class InjectedFault(RuntimeError):
    pass


def criteria_met(method, hist, opts):
    big = np.finfo(float).max
    tr, ti, td = opts.get("tol_residual", big), opts.get("tol_increment", big), opts.get("tol_distance", big)
    with warnings.catch_warnings():
        warnings.simplefilter("ignore")
        with np.errstate(all="ignore"):
            if method == "newton":
                if not hist["residual"]:
                    return False
                return bool(hist["residual"][-1] < tr * hist["residual"][0]
                            and hist["flux_increment"][-1] < ti * hist["flux_increment"][0]
                            and hist["distance_increment"][-1] < td)
            if not hist["aux_force_increment"]:
                return False
            return bool(hist["aux_force_increment"][-1] < ti * hist["aux_force_increment"][0]
                        and hist["distance_increment"][-1] / hist["distance"][-1] < td
                        and hist["mass_conservation_residual"][-1] < tr)


def _arm(state):
    state["second"] = "fault"


def run_case(darsia, rng, tid, c):
    shape, h = tuple(c["shape"]), c["h"]
    grid = darsia.Grid(shape, [float(x) for x in h])
    a1, a2 = random_masses(random.Random(c["mseed"]), shape, c["mass"])
    idt = c.get("imgdtype", "float64")
    if idt != "float64":
        # images as they come from a camera / a file: integer (or float32) pixels carrying integer masses of equal total
        a1 = np.round(a1)
        a2 = np.round(a2)
        d = int(a1.sum() - a2.sum())
        j = int(np.argmax(a2 if d < 0 else a1)) if d < 0 else int(np.argmax(a2))
        a2.ravel()[j] += d
        if a2.min() < 0:
            a2.ravel()[j] -= d
            a1.ravel()[int(np.argmax(a1))] -= d
    img1, img2 = make_images(darsia, shape, h, a1, a2)
    if idt != "float64":
        img1.img = img1.img.astype(idt)
        img2.img = img2.img.astype(idt)
    opts = dict(c["opts"])
    opts["l1_mode"] = getattr(darsia.L1Mode, c["l1"])
    opts["mobility_mode"] = getattr(darsia.MobilityMode, c["mob"])
    opts["return_info"] = True
    if c.get("adaptive"):
        # update schedule of the adaptive Bregman variant: every third iteration, every iteration, the odd ones (the run may
        # end right after an update, or several iterations after the last one)
        opts["bregman_update"] = {True: (lambda it: it % 3 == 2), "always": (lambda it: True), "odd": (lambda it: it % 2 == 1)}[c["adaptive"]]
    weight = None
    wflat = np.ones(int(np.prod(shape)))
    if c.get("weight") == "het":      # heterogeneous scalar cell weight in [0.5, 2]
        warr = 0.5 + 1.5 * np.random.RandomState(c["mseed"]).rand(*shape)
        weight = darsia.Image(warr.copy(), space_dim=len(shape), dimensions=[h[a] * shape[a] for a in range(len(shape))], scalar=True)
        wflat = warr.ravel("F").copy()
    elif c.get("weight"):
        wv = float(c["weight"])
        weight = darsia.Image(np.full(shape, wv), space_dim=len(shape), dimensions=[h[a] * shape[a] for a in range(len(shape))], scalar=True)
        wflat = wflat * wv
    cls = darsia.WassersteinDistanceNewton if c["method"] == "newton" else darsia.WassersteinDistanceBregman
    w1 = cls(grid, weight, opts)
    D = incidence(grid)
    vol = float(np.prod(h))
    rhs = vol * (np.asarray(a2, dtype=float) - np.asarray(a1, dtype=float)).reshape(shape).ravel("F")   # from the masses, not from the images' pixel type
    scale = max(1e-300, float(np.abs(rhs).max()))
    nq = int(round(len(darsia.quadrature.gauss_reference_cell(grid.dim, "max")[1]) ** (1.0 / grid.dim)))

    versions = []      # fluxes passed to the cost functional by the loop, in order
    calls = {"n": 0}
    state = {"in_solve": False, "flat": None}
    orig_ls, orig_l1, orig_solve = w1.linear_solve, w1.l1_dissipation, w1._solve
    post_fault = c["fault"] == "post"      # fail the step after the loop (Bregman: pressure recovery) instead of an iteration

    in_loop_kw = c["method"] == "bregman"   # Bregman's in-loop solves pass reuse_solver=..., the final pressure solve does not

    def ls(*a, **k):
        if state.get("second") == "fault":
            calls["third"] = calls.get("third", 0) + 1
            if calls["third"] == 2:        # exactly one failure: the first inner solve after the initial Darcy solve
                state["second"] = True
                calls["third_injected"] = True
                raise InjectedFault("injected failure of the first inner solve of a later run on the same solver object")
            return orig_ls(*a, **k)
        if state.get("second"):
            return orig_ls(*a, **k)
        i = calls["n"]
        calls["n"] += 1
        if i > 0 and in_loop_kw and "reuse_solver" not in k and post_fault:
            calls["post_injected"] = True
            raise InjectedFault("injected failure of the linear solve after the loop (pressure recovery)")
        if i > 0 and in_loop_kw:
            calls["post_rhs"] = np.array(a[1], dtype=float, copy=True)       # the last one is the Newton-step system of the pressure recovery
        if i > 0 and (not in_loop_kw or "reuse_solver" in k):
            calls["loop"] = calls.get("loop", 0) + 1
            if c["fault"] is not None and not post_fault and calls["loop"] - 1 == c["fault"]:
                calls["injected"] = True
                raise InjectedFault(f"injected failure of the inner solve of iteration {c['fault']}")
        out = orig_ls(*a, **k)
        if i == 0:
            try:      # the initial (Darcy) iterate, in case the loop never passes it to the cost functional
                calls["init_flux"] = np.array(np.asarray(out[0], dtype=float)[:int(grid.num_faces)], copy=True)
            except Exception:  # noqa
                pass
        try:   # achieved precision of this inner solve (residual in the system it was given)
            M, b = a[0], np.asarray(a[1], dtype=float)
            # absolute residual, in units of the mass right-hand side (the rhs of an accelerated iteration can be
            # many orders larger than the masses; "linear-solver precision" of the mass rows is then this residual)
            r = float(np.abs(M @ np.asarray(out[0], dtype=float) - b).max()) / scale
            calls["linres"] = max(calls.get("linres", 0.0), r)
            # ... and relative to the size of the system's own right-hand side (whatever the magnitude of the data)
            bmax = float(np.abs(b).max())
            if bmax > 1e-8 * scale:        # (a right-hand side that is itself round-off of the masses carries no information)
                calls["linown"] = max(calls.get("linown", 0.0), float(np.abs(M @ np.asarray(out[0], dtype=float) - b).max()) / bmax)
        except Exception:
            pass
        return out

    def l1(flux):
        if state["in_solve"] and not state.get("second"):
            f = np.array(flux, dtype=float, copy=True)
            if not versions or not np.array_equal(versions[-1], f):
                versions.append(f)
        return orig_l1(flux)

    def solve(md):
        state["in_solve"] = True
        try:
            r = orig_solve(md)
        finally:
            state["in_solve"] = False
        if not state.get("second"):
            state["flat"] = np.array(r[1], dtype=float, copy=True)
        return r

    w1.linear_solve, w1.l1_dissipation, w1._solve = ls, l1, solve
    ev = []
    raised, err = 0, None
    caught = []
    post_failed = False
    try:
        with warnings.catch_warnings(record=True) as wl:
            warnings.simplefilter("always")
            with np.errstate(all="ignore"), contextlib.redirect_stdout(io.StringIO()):
                dist, info = w1(img1, img2)
            caught = [str(x.message) for x in wl if "abruptly stopped" in str(x.message)]
            post_failed = any("pressure recovery failed" in str(x.message) for x in wl)
    except Exception as ex:  # noqa
        raised, err = 1, repr(ex)[:200]

    def mb(u):
        return exponent(float(np.abs(D @ u - rhs).max()) / scale)

    def lin():
        return exponent(calls.get("linres", 0.0))

    base = {"tid": tid}
    if raised:
        ev.append(dict(base, op="start", num_iter=opts["num_iter"], mbexp=-17, linexp=-17))
        ev.append(dict(base, op="end", raised=1, error=err))
        return ev
    flat = state["flat"]
    nf = int(grid.num_faces)
    uret = flat[:nf]
    hist = info["convergence_history"]
    ncompleted = len(hist["distance"])
    # event stream: versions[0] = Darcy init, versions[k] = iterate after k completed iterations
    if not versions:
        versions.append(calls["init_flux"] if "init_flux" in calls else np.full(nf, np.nan))
    if len(versions) < ncompleted + 1:
        # an iteration that reproduces the previous flux exactly adds no new version
        while len(versions) < ncompleted + 1:
            versions.append(versions[-1])
    ev.append(dict(base, op="start", num_iter=opts["num_iter"], mbexp=mb(versions[0]), linexp=lin()))
    critmet = criteria_met(c["method"], hist, opts)
    # an iteration failed: injected by the harness, or an internal error swallowed by the blanket handler
    faulted = bool(caught)
    internal = faulted and not calls.get("injected", False)
    for k in range(ncompleted):
        ev.append(dict(base, op="iter", i=k, mbexp=mb(versions[k + 1]), linexp=lin(), last=int(k == ncompleted - 1 and not faulted), critmet=int(critmet)))
    if faulted:
        ev.append(dict(base, op="fault", i=ncompleted, internal=int(internal)))
    if post_failed or calls.get("post_injected"):
        ev.append(dict(base, op="postfault", internal=int(not calls.get("post_injected", False))))
    # which version does the returned flux equal?
    retver = -1
    for k in range(len(versions) - 1, -1, -1):
        if np.allclose(versions[k], uret, rtol=1e-12, atol=1e-14 * max(1.0, float(np.abs(uret).max()))):
            retver = k
            break
    if retver > ncompleted:
        retver = -1
    cost, dens = transport_cost(grid, uret, c["l1"], wflat, nq)
    drel = abs(float(dist) - cost) / max(1e-300, abs(cost), 1e-12 * scale)
    # auxiliary outputs derive from the same solution
    cf = cell_flux(grid, uret, np.full(grid.dim, 0.5))
    cf_impl = np.stack([np.asarray(info["flux"])[..., d].ravel("F") for d in range(grid.dim)], axis=1)
    cfe = exponent(float(np.abs(cf - cf_impl).max()) / max(1e-300, float(np.abs(cf).max()), 1e-12))
    td_impl = np.asarray(info["transport_density"]).ravel("F")
    tde = exponent(float(np.abs(td_impl - dens).max()) / max(1e-300, float(np.abs(dens).max()), 1e-12))
    # the pressure output is the pressure block of the returned solution vector ...
    p_out = np.asarray(info["pressure"], dtype=float).ravel("F")
    nc_ = int(grid.num_cells)
    pblk = exponent(float(np.abs(p_out - flat[nf:nf + nc_]).max()) / max(1.0, float(np.abs(p_out).max())))
    # ... and, for Bregman, the potential of the Newton step around the RETURNED flux: the harness solves that system itself
    # (matrix assembled by the library's own routine at the returned flux, dense solve; only when it is well conditioned -
    # the pressure is not unique where the flux vanishes)
    pnewt = -17
    if c["method"] == "bregman" and "post_rhs" in calls and not (post_failed or calls.get("post_injected")):
        try:
            Jh = w1._update_regularization(uret)[0].toarray()
            if np.linalg.cond(Jh) < 1e9:
                ph = np.linalg.solve(Jh, calls["post_rhs"])[nf:nf + nc_]
                pnewt = exponent(float(np.abs(ph - p_out).max()) / max(1e-12, float(np.abs(ph).max())))
        except Exception:  # noqa
            pnewt = -17
    pin = float(np.asarray(info["pressure"]).ravel("F")[int(w1.constrained_cell_flat_index)])
    pscale = max(1.0, float(np.abs(np.asarray(info["pressure"])).max()))
    ev.append(dict(base, op="end", raised=0, converged=int(bool(info["converged"])), critmet=int(critmet and not faulted),
                   retver=retver, dexp=exponent(drel), mbexp=mb(uret), linexp=lin(), pinexp=exponent(abs(pin) / pscale),
                   cfexp=cfe, tdexp=tde, pblkexp=pblk, pnewtexp=pnewt, linownexp=exponent(calls.get("linown", 0.0)),
                   direct=int(opts.get("linear_solver", "direct") == "direct"), earlyexit=int(bool(np.isnan(dist))), niter=int(info["number_iterations"]), ncompleted=ncompleted))
    if c.get("second"):
        # the same solver object is used again for another pair of masses: (1) what the first call returned is the caller's and
        # stays as it was, (2) the second result is what a fresh solver object returns for that pair
        keys = [k for k in ("flux", "weighted_flux", "pressure", "transport_density", "mass_diff") if isinstance(info.get(k), np.ndarray)]
        snap = {k: np.array(info[k], copy=True) for k in keys}
        b1, b2 = random_masses(random.Random(c["mseed"] + 1), shape, "dense")
        imgb1, imgb2 = make_images(darsia, shape, h, b1, b2)
        e2 = dict(base, op="second", raised=0, first_unchanged=0, changed=[], freshexp=3, conv_same=1, third_flagged=1)
        try:
            state["second"] = True
            with warnings.catch_warnings():
                warnings.simplefilter("ignore")
                with np.errstate(all="ignore"):
                    d2, info2 = w1(imgb1, imgb2)
                    opts_f = dict(opts)
                    wf = cls(darsia.Grid(shape, [float(x) for x in h]), weight, opts_f)
                    d3, info3 = wf(imgb1, imgb2)
            e2["changed"] = [k for k in keys if not np.array_equal(snap[k], info[k])]
            e2["first_unchanged"] = int(not e2["changed"])
            scale2 = max(1e-300, abs(float(d3)))
            dev = max(abs(float(d2) - float(d3)) / scale2,
                      float(np.abs(np.asarray(info2["flux"]) - np.asarray(info3["flux"])).max()) / max(1e-300, float(np.abs(np.asarray(info3["flux"])).max())))
            e2["freshexp"] = exponent(dev)
            e2["conv_same"] = int(bool(info2["converged"]) == bool(info3["converged"]))
            # a third run on the same object whose first iteration fails: flagged non-converged whatever the earlier runs reported
            calls["third"] = 0
            with warnings.catch_warnings(record=True) as wl3:
                warnings.simplefilter("always")
                with np.errstate(all="ignore"):
                    _arm(state)
                    d4, info4 = w1(imgb1, imgb2)
            e2["third_flagged"] = int(not bool(info4["converged"])) if calls.get("third_injected") else 1
        except Exception as ex:  # noqa
            e2["raised"] = 1
            e2["error"] = repr(ex)[:200]
        ev.append(e2)
    return ev


def configs(rng, quick, terminals):
    """Configuration table x fault positions (terminal states of SolverLoop give (completed, failedAt))."""
    shapes = [((5,), [0.5]), ((4, 3), [0.5, 0.25]), ((6, 1), [1.0, 2.0]), ((1, 5), [0.1, 0.3]), ((3, 3, 2), [1.0, 0.5, 0.5]),
              ((2, 2, 2), [0.3, 0.2, 0.1]), ((3, 1, 2), [1.0, 1.0, 1.0]), ((7,), [0.3 / 7]), ((5, 4), [1.0, 1.0])]
    l1s = ["RAVIART_THOMAS", "CONSTANT_SUBCELL_PROJECTION", "CONSTANT_CELL_PROJECTION"]
    mobs = ["CELL_BASED", "CELL_BASED_ARITHMETIC", "CELL_BASED_HARMONIC", "SUBCELL_BASED", "FACE_BASED"]
    solvers = [("full", "direct"), ("flux_reduced", "direct"), ("pressure", "direct"), ("pressure", "amg"), ("pressure", "cg"), ("flux_reduced", "amg")]
    out = []
    faults = sorted({t[1] for t in terminals if t[1] is not None})
    if not any(t[3] for t in terminals):
        raise MachineryError("SolverLoop emitted no terminal state with a failed post-loop step")
    n = 28 if quick else 1100
    for i in range(n):
        shape, h = rng.choice(shapes)
        if rng.random() < 0.7:   # the same shape recurs with other (anisotropic) voxel sizes within one process
            h = [rng.choice([1.0, 0.5, 0.25, 2.0, 0.1, 0.3 / 7]) for _ in shape]
        method = rng.choice(["newton", "bregman", "bregman"])
        form, ls = rng.choice(solvers)
        num_iter = rng.choice([4, 6])
        tolmode = rng.choice(["default", "never", "moderate"])
        opts = {"num_iter": num_iter, "formulation": form, "linear_solver": ls, "L": rng.choice([1.0, 0.1, 10.0]) if method == "bregman" else 1e-2}
        if tolmode == "never":
            opts.update(tol_residual=0.0, tol_increment=0.0, tol_distance=0.0)
        elif tolmode == "moderate":
            opts.update(tol_residual=1e-1 if method == "newton" else 1e-6, tol_increment=1e-1, tol_distance=1e-1)
        if ls in ("amg", "cg"):
            opts["linear_solver_options"] = {"atol": 1e-13, "rtol": 1e-13, "maxiter": 600}
        if rng.random() < 0.3:
            opts["aa_depth"] = 3
        fault = rng.choice([None] + [f for f in faults if f is not None and f >= 0 and f < num_iter] + (["post", "post"] if method == "bregman" else []))
        out.append({"shape": list(shape), "h": h, "method": method, "l1": rng.choice(l1s), "mob": rng.choice(mobs), "opts": opts,
                    "mass": rng.choice(["dense", "compact", "single"]), "mseed": rng.randrange(10 ** 6), "fault": fault,
                    "adaptive": method == "bregman" and rng.random() < 0.3, "weight": rng.choice([None, None, 2.0, "het"]),
                    "second": fault is None and rng.random() < 0.5, "imgdtype": rng.choice(["float64", "float64", "float64", "uint8", "uint16", "float32", "int64"])})
    # every fault position once for each method on a fixed small case
    for method in ("newton", "bregman"):
        for f in [None] + [x for x in faults if x is not None and 0 <= x < 6]:
            out.append({"shape": [4, 3], "h": [0.5, 0.25], "method": method, "l1": "RAVIART_THOMAS", "mob": "CELL_BASED",
                        "opts": {"num_iter": 6, "formulation": "pressure", "linear_solver": "direct", "L": 1.0 if method == "bregman" else 1e-2,
                                 "tol_residual": 0.0, "tol_increment": 0.0, "tol_distance": 0.0},
                        "mass": "dense", "mseed": 7, "fault": f, "adaptive": False, "weight": None})
    # adaptive Bregman runs that end on / after an update of the regularization (pressure recovery around the returned flux)
    for sched in ("always", "odd", True):
        for (form, ls) in (("full", "direct"), ("pressure", "direct"), ("flux_reduced", "direct")):
            out.append({"shape": [4, 3], "h": [0.5, 0.25], "method": "bregman", "l1": rng.choice(l1s), "mob": rng.choice(mobs),
                        "opts": {"num_iter": rng.choice([4, 6]), "formulation": form, "linear_solver": ls, "L": 1.0, "tol_residual": 0.0, "tol_increment": 0.0, "tol_distance": 0.0},
                        "mass": "dense", "mseed": rng.randrange(10 ** 6), "fault": None, "adaptive": sched, "weight": None})
    # weighted problems solved twice with one solver object (constant and heterogeneous cell weights)
    for method in ("newton", "bregman"):
        for wgt in (2.0, "het"):
            out.append({"shape": [4, 3], "h": [0.5, 0.25], "method": method, "l1": rng.choice(l1s), "mob": rng.choice(mobs),
                        "opts": {"num_iter": 6, "formulation": rng.choice(["full", "pressure"]), "linear_solver": "direct", "L": 1.0 if method == "bregman" else 1e-2},
                        "mass": "dense", "mseed": rng.randrange(10 ** 6), "fault": None, "adaptive": False, "weight": wgt, "second": True})
    # the step after the loop (Bregman's pressure recovery) fails, after the stopping criteria were met or not
    for adaptive in (False, True):
        for aa in (0, 3):
            for tol in ("moderate", "never"):
                opts = {"num_iter": 8, "formulation": "pressure", "linear_solver": "direct", "L": 1.0}
                opts.update(dict(tol_residual=1e-6, tol_increment=1e-1, tol_distance=1e-1) if tol == "moderate" else dict(tol_residual=0.0, tol_increment=0.0, tol_distance=0.0))
                if aa:
                    opts["aa_depth"] = aa
                out.append({"shape": [4, 3], "h": [0.5, 0.25], "method": "bregman", "l1": rng.choice(l1s), "mob": rng.choice(mobs), "opts": opts,
                            "mass": "dense", "mseed": rng.randrange(10 ** 6), "fault": "post", "adaptive": adaptive, "weight": None})
    # stagnation: on a one-cell-thin grid the flux is unique, so the iteration reaches its fixed point after one step; with
    # the stopping criteria switched off Anderson acceleration then sees increments that differ by round-off only
    # (fixed a16df87: the degenerate least-squares mix perturbed the flux by O(1))
    for (form, ls) in solvers:
        for method in ("newton", "bregman"):
            for (shape, h) in (((1, 5), [0.1, 0.3]), ((6, 1), [1.0, 2.0])):
                opts = {"num_iter": rng.choice([2, 3, 4]), "formulation": form, "linear_solver": ls, "L": 1.0 if method == "bregman" else 1e-2,
                        "tol_residual": 0.0, "tol_increment": 0.0, "tol_distance": 0.0, "aa_depth": rng.choice([1, 3])}
                if ls in ("amg", "cg"):
                    opts["linear_solver_options"] = {"atol": 1e-13, "rtol": 1e-13, "maxiter": 600}
                out.append({"shape": list(shape), "h": h, "method": method, "l1": rng.choice(l1s), "mob": rng.choice(mobs), "opts": opts,
                            "mass": rng.choice(["compact", "single", "dense"]), "mseed": rng.randrange(10 ** 6), "fault": None,
                            "adaptive": False, "weight": None})
    # iteration budgets at the lower end: none at all (the result is the Darcy initial guess), one, two (the stopping test is
    # only evaluated from the third iteration on)
    for method in ("newton", "bregman"):
        for ni in (0, 1, 2):
            form, ls = rng.choice(solvers)
            out.append({"shape": [3, 4], "h": [0.5, 0.25], "method": method, "l1": rng.choice(l1s), "mob": rng.choice(mobs),
                        "opts": {"num_iter": ni, "formulation": form, "linear_solver": ls, "L": 1.0 if method == "bregman" else 1e-2},
                        "mass": "dense", "mseed": rng.randrange(10 ** 6), "fault": None, "adaptive": False, "weight": None, "second": ni == 0})
    # runs that report their progress (verbose=True) on a large domain with un-normalised masses (distance well above 1), the
    # distance criterion binding: the status is the one the criteria give, whether or not the iteration is printed
    for method in ("newton", "bregman"):
        for verbose in (True, False):
            out.append({"shape": [4, 5], "h": [3.0, 2.0], "method": method, "l1": rng.choice(l1s), "mob": rng.choice(mobs),
                        "opts": {"num_iter": 40, "formulation": "pressure", "linear_solver": "direct", "L": 1.0 if method == "bregman" else 1e-2,
                                 "tol_distance": 1e-4, "verbose": verbose},
                        "mass": "dense", "mseed": 4242, "fault": None, "adaptive": False, "weight": None})
    # micrometre voxels (cell volumes of 1e-18, integrated masses far below machine epsilon in absolute terms) and kilometre
    # voxels: the mass balance is relative to the masses
    for method in ("newton", "bregman"):
        for hh in ([1e-6, 1e-6, 1e-6], [2e3, 1e3, 5e2]):
            out.append({"shape": [3, 2, 2], "h": hh, "method": method, "l1": rng.choice(l1s), "mob": rng.choice(mobs),
                        "opts": {"num_iter": 5, "formulation": rng.choice(["pressure", "full"]), "linear_solver": "direct", "L": 1.0 if method == "bregman" else 1e-2},
                        "mass": "dense", "mseed": rng.randrange(10 ** 6), "fault": None, "adaptive": False, "weight": None})
    # nearly identical distributions on a large common background: the mass balance is that of the small difference
    for method in ("newton", "bregman"):
        for (form, ls) in (("pressure", "direct"), ("full", "direct")):
            out.append({"shape": [4, 3], "h": [0.5, 0.25], "method": method, "l1": rng.choice(l1s), "mob": rng.choice(mobs),
                        "opts": {"num_iter": 6, "formulation": form, "linear_solver": ls, "L": 1.0 if method == "bregman" else 1e-2},
                        "mass": "near", "mseed": rng.randrange(10 ** 6), "fault": None, "adaptive": False, "weight": None})
    # the recorded instance of that defect (thorough tier, seed 0), ending right after the perturbed iterate
    for ni, fault in ((2, None), (6, 2)):
        out.append({"shape": [1, 5], "h": [0.1, 0.3], "method": "newton", "l1": "CONSTANT_SUBCELL_PROJECTION", "mob": "CELL_BASED",
                    "opts": {"num_iter": ni, "formulation": "pressure", "linear_solver": "cg", "L": 0.01, "tol_residual": 0.0, "tol_increment": 0.0,
                             "tol_distance": 0.0, "linear_solver_options": {"atol": 1e-13, "rtol": 1e-13, "maxiter": 600}, "aa_depth": 3},
                    "mass": "single", "mseed": 799275, "fault": fault, "adaptive": False, "weight": None})
    return out


def run(ck, replay=None):
    ck.sany("SolverLoop", "Trace_SolverLoop")
    r = ck.model_check("SolverLoop", "SolverLoop_fixed.cfg", workers=1)
    terminals = [(p[1], None if p[2] == -1 else p[2], p[3], p[4]) for p in r.printed("SCN")]
    reg = ck.tlc("SolverLoop", "SolverLoop_asbuilt.cfg", workers=1, expect_ok=False, label="regression-model")
    if not reg.violated:
        raise MachineryError("SolverLoop no longer rejects the pre-fix status rule (vacuity guard)")
    reg2 = ck.tlc("SolverLoop", "SolverLoop_postignored.cfg", workers=1, expect_ok=False, label="regression-model")
    if not reg2.violated:
        raise MachineryError("SolverLoop no longer rejects a status that ignores a failed post-loop step (vacuity guard)")
    reg3 = ck.tlc("SolverLoop", "SolverLoop_flagkept.cfg", workers=1, expect_ok=False, label="regression-model")
    if not ({"ConvergedOnlyIfCriteria", "FaultFlagged"} & set(reg3.violated)):
        raise MachineryError("SolverLoop no longer rejects a status inherited from an earlier run on the same object (vacuity guard)")
    darsia = import_darsia()
    from checks.wcommon import solver_twins
    ck.cov["twin_object_histories"] = solver_twins(ck, darsia, "C04", ck.tier == "quick")
    rng = random.Random(ck.seed)
    quick = ck.tier == "quick"
    cases = [c["case"] for c in json.load(open(replay))["cases"]] if replay else configs(rng, quick, terminals)
    events, info = [], {}
    for i, c in enumerate(cases):
        tid = f"w{i}"
        info[tid] = c
        events += run_case(darsia, rng, tid, c)
    bad = ck.validate("Trace_SolverLoop", "Trace_SolverLoop.cfg", events, chunk=0)
    for b in bad:
        c = info[b["tid"]]
        e = b["event"]
        fpos = "nofault" if c["fault"] is None else ("fault@0" if c["fault"] == 0 else ("fault@post" if c["fault"] == "post" else "fault@k"))
        if any(x.get("internal") for x in events if x["tid"] == b["tid"] and x["op"] == "fault"):
            fpos = "internalfault"
        sig = f"C04:{b['clause']}:{c['method']}:{fpos}"
        if b["clause"] in ("SolveTotal",):
            sig += f":{c['opts']['formulation']}:{c['opts']['linear_solver']}:{c['mob']}:" + ("thin" if 1 in c["shape"] else "full")
        ck.violation(sig, f"solver run violates {b['clause']} ({c['method']}, {fpos})", {"case": c, "event": {k: v for k, v in e.items() if k != 'tid'}})
    ck.cov["evaluations"] = len(cases)
    ck.cov["distinct_nontrivial"] = len({(c["method"], c["fault"], c["opts"]["formulation"], c["opts"]["linear_solver"], c["l1"], c["mob"], tuple(c["shape"])) for c in cases if c["fault"] is not None})
    ck.cov["rule"] = "solver runs over a seeded sample of the configuration table (grid, masses, method, L1 mode, mobility mode, formulation, back-end, Anderson, weight, tolerances) each with an injected failure of the inner linear solve at an iteration enumerated from SolverLoop's terminal states, or none; non-trivial = run with an injected fault"
    ck.cov["fault_positions"] = sorted({str(c["fault"]) for c in cases})
    ck.cov["samples"] = [cases[0], [e for e in events if e["tid"] == "w0"]]
    ck.assumptions += ["faults are transient: exactly one inner linear solve raises; the initial Darcy solve (before the loop) is not failed",
                       "mass balance / cost / reconstruction observables are computed by the harness from the connectivity table (C07) and numpy Gauss rules, quantised to decimal exponents"]
