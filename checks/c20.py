"""C20 — matrix and Cartesian axis conventions are coherent in every dimension."""
import itertools
import json
import random

import numpy as np

from lib.core import import_darsia
from checks.common import build_image

LEVEL = "model_checking"


def safe(f, *a):
    try:
        return f(*a)
    except Exception:
        return None


def record_axes_call(name, args, kwargs, res, exc):
    """Event for one observed call of interpret_indexing(axis, indexing) (lib/suite_recorder.py); None = not recordable."""
    if name != "interpret_indexing" or kwargs or len(args) != 2:
        return None
    axis, indexing = args
    if not (isinstance(axis, str) and isinstance(indexing, str) and len(axis) == 1 and 1 <= len(indexing) <= 3):
        return None
    n = len(indexing)
    fam_i = "m" if indexing == "ijk"[:n] else ("c" if indexing == "xyz"[:n] else None)
    fam_a = "m" if axis in "ijk"[:n] else ("c" if axis in "xyz"[:n] else None)
    if fam_i is None or fam_a is None:
        return None        # outside the documented domain: the helper may raise, nothing to judge
    k = ("ijk" if fam_a == "m" else "xyz").index(axis)
    if exc is not None:
        return {"op": "call", "fn": name, "n": n, "fa": fam_a, "fi": fam_i, "k": k, "res": [-1, -1]}
    try:
        return {"op": "call", "fn": name, "n": n, "fa": fam_a, "fi": fam_i, "k": k, "res": [int(res[0]), 1 if res[1] else 0]}
    except Exception:  # noqa
        return {"op": "call", "fn": name, "n": n, "fa": fam_a, "fi": fam_i, "k": k, "res": [-1, -1]}


def helper_tables(darsia, n, table, rng):
    ijk, xyz = "ijk"[:n], "xyz"[:n]

    def name_idx(r, alphabet):
        return alphabet.find(r) if isinstance(r, str) and len(r) == 1 and r in alphabet else -1

    def interp(a, ind):
        r = safe(darsia.interpret_indexing, a, ind)
        return [int(r[0]), 1 if r[1] else 0] if r is not None else [-1, -1]

    e = {"op": "tables", "n": n, "tid": f"tables:{n}d"}
    e["tm"] = [name_idx(safe(darsia.to_matrix_indexing, xyz[c], xyz), ijk) for c in range(n)]
    e["tmi"] = [name_idx(safe(darsia.to_matrix_indexing, c, xyz), ijk) for c in range(n)]
    e["tc"] = [name_idx(safe(darsia.to_cartesian_indexing, ijk[m], ijk), xyz) for m in range(n)]
    e["tci"] = [name_idx(safe(darsia.to_cartesian_indexing, m, ijk), xyz) for m in range(n)]
    e["m2c"] = [interp(ijk[m], xyz) for m in range(n)]
    e["c2m"] = [interp(xyz[c], ijk) for c in range(n)]
    e["idm"] = [interp(ijk[m], ijk) for m in range(n)]
    e["idc"] = [interp(xyz[c], xyz) for c in range(n)]
    # unit steps of the coordinate system of a real image (inexact voxel sizes)
    shape = tuple(rng.randint(1, 4) for _ in range(n))
    h = [rng.choice([0.1, 0.3 / 7, 2.0]) for _ in range(n)]
    img, o, _ = build_image(darsia, rng, shape, h, "user", "scalar", table)
    cs = img.coordinatesystem
    steps = []
    for m in range(n):
        u = [0] * n
        u[m] = 1
        d = np.asarray(cs.coordinate(u)) - np.asarray(cs.coordinate([0] * n))
        nz = [i for i in range(n) if abs(d[i]) > 1e-9 * h[m]]
        if len(nz) == 1 and abs(abs(d[nz[0]]) - h[m]) < 1e-9 * h[m]:
            steps.append([nz[0], 1 if d[nz[0]] > 0 else -1])
        else:
            steps.append([-1, 0])
    e["steps"] = steps
    return e


def placement(im):
    """origin and dimensions of a result image, in 1e-6 units (placement of the reduced/sliced image)."""
    return [int(round(1e6 * float(x))) for x in list(np.asarray(im.origin, dtype=float)) + list(im.dimensions)]


def tags(a):
    return np.round(np.asarray(a, dtype=float)).astype(np.int64).tolist()


MAG = [-1]


def slice_events(darsia, rng, shape, table, tid):
    """slice / reduce_axis by Cartesian name versus by matrix index, every axis, every cut."""
    n = len(shape)
    ev = []
    h = [rng.choice([0.1, 0.5, 0.3 / 7]) for _ in range(n)]
    # (magnitudes in turn: ordinary; an origin a million voxel sizes away; nanometre voxels; kilometre voxels)
    MAG[0] += 1
    omode = rng.choice(["default", "user", "int", "intarr"])
    if MAG[0] % 4 == 1:
        omode = "far"
    elif MAG[0] % 4 == 2:
        h = [x * 1e-8 for x in h]
        omode = "user"
    elif MAG[0] % 4 == 3:
        h = [x * 1e4 for x in h]
        omode = "user"
    # origins as users write them: floats, Python ints, integer arrays (a cut coordinate is a float in every case)
    img, o, arr = build_image(darsia, rng, shape, h, omode, "scalar", table)

    def slices_for(c, name, org, suffix):
        # slices: cut through the centre of voxel q along the matrix axis belonging to name c; the cut coordinate is the
        # harness' own (origin + sign * (q + 1/2) * voxel size), not one read back from the image
        m_of_c = [m for m in range(n) if table[m][0] - 1 == c][0]
        sgn_c = table[m_of_c][1]
        for q in (range(shape[m_of_c]) if not suffix else sorted({0, shape[m_of_c] - 1})):     # (after relocation: the two end cuts)
            byindex, byindexmeta = [], []
            for m in range(n):
                if q < shape[m]:
                    r = safe(lambda: img.slice(q, m if rng.random() < 0.5 else np.int64(m)))
                    byindex.append(tags(r.img) if r is not None else "ERR")
                    byindexmeta.append(placement(r) if r is not None else [])
                else:
                    byindex.append("n/a")
                    byindexmeta.append([])
            cut = float(org[c] + sgn_c * (q + 0.5) * h[m_of_c])
            r = safe(lambda: img.slice(cut, name))
            ev.append({"op": "slice", "tid": tid + suffix, "n": n, "c": c, "shape": list(shape), "q": q,
                       "bynamemeta": placement(r) if r is not None else [], "byindexmeta": byindexmeta,
                       "byname": tags(r.img) if r is not None else [], "bynameok": int(r is not None),
                       "byindex": [b if b not in ("ERR", "n/a") else [] for b in byindex],
                       "byindexok": [int(b != "ERR") for b in byindex],
                       "plain": [tags(arr.take(q, axis=m)) if q < shape[m] else [] for m in range(n)]})

    for c in range(n):
        name = "xyz"[c]
        for mode in ["sum", "average"]:
            byindex, byindexmeta, plain = [], [], []
            for m in range(n):
                # the matrix index as a Python int or as a numpy integer (np.argmax, loops over np.arange)
                r = safe(darsia.reduce_axis, img, m if rng.random() < 0.5 else np.int64(m), mode)
                sc = shape[m] if mode == "average" else 1
                byindex.append(tags(r.img * sc) if r is not None else "ERR")
                byindexmeta.append(placement(r) if r is not None else [])
                plain.append(tags(arr.sum(axis=m)))        # the plain array reduction along that axis
            r = safe(darsia.reduce_axis, img, name, mode)
            scn = shape[[m for m in range(n) if table[m][0] - 1 == c][0]] if mode == "average" else 1
            ev.append({"op": "reduce", "tid": tid, "n": n, "c": c, "shape": list(shape), "mode": mode,
                       "bynamemeta": placement(r) if r is not None else [], "byindexmeta": byindexmeta,
                       "byname": tags(r.img * scn) if r is not None else [], "bynameok": int(r is not None),
                       "byindex": [b if b != "ERR" else [] for b in byindex], "byindexok": [int(b != "ERR") for b in byindex], "plain": plain})
        slices_for(c, name, o, "")
    # the image is given another position (reset_origin / update_metadata / assignment of the origin) after its coordinate
    # system has been used, and is cut by Cartesian name again: the cuts are those of the NEW position
    how = rng.choice(["reset", "update", "assign"])
    if how == "reset":
        img.reset_origin()
        o2 = np.zeros(n)
        for m in range(n):
            cc, sgn = table[m]
            if sgn < 0:
                o2[cc - 1] = h[m] * shape[m]
    else:
        o2 = np.array([o[k_] + (2 + k_) * 1.5 * h[[m for m in range(n) if table[m][0] - 1 == k_][0]] for k_ in range(n)], dtype=float)
        if how == "update":
            img.update_metadata(origin=darsia.Coordinate(o2.copy()))    # the attribute's declared type (a bare list is not)
        else:
            img.origin = darsia.Coordinate(o2.copy())
    if not np.allclose(o2, o):
        for c in range(n):
            slices_for(c, "xyz"[c], o2, ":moved-" + how)
    return ev


def layout_event(darsia, shape, tid):
    n = len(shape)
    a = np.arange(int(np.prod(shape))).reshape(shape)
    r = safe(darsia.matrixToCartesianIndexing, a.copy(), n)
    e = {"op": "layout", "tid": tid, "n": n, "shape": list(shape)}
    if r is None:
        e.update(m2c=[], m2cok=0, cshape=[], back="ERR")
        return e
    e["m2c"] = tags(r)
    e["m2cok"] = 1
    e["cshape"] = list(r.shape)
    b = safe(darsia.cartesianToMatrixIndexing, np.asarray(r).copy())
    e["back"] = "ERR" if b is None else ("same" if np.asarray(b).shape == a.shape and np.array_equal(b, a) else "different")
    return e


def layout_events_payload(darsia, shape, comps, tid):
    """The layout helpers on an array with a trailing component axis (colour / vector data, as the vtk export passes it):
    every component is laid out like a scalar array of the same spatial shape, and the component axis is kept in order."""
    n = len(shape)
    base = np.arange(int(np.prod(shape))).reshape(shape)
    a = np.stack([base + 0 * k for k in range(comps)], axis=-1)     # same spatial tags in every component ...
    marks = np.arange(comps)                                          # ... plus a component mark checked separately
    r = safe(darsia.matrixToCartesianIndexing, (a * comps + marks).copy(), n)
    out = []
    for k in range(comps):
        e = {"op": "layout", "tid": f"{tid}:c{k}", "n": n, "shape": list(shape)}
        if r is None or np.asarray(r).ndim != n + 1 or np.asarray(r).shape[-1] != comps:
            e.update(m2c=[], m2cok=0, cshape=[], back="ERR")
        else:
            comp = np.asarray(r)[..., k]
            ok = bool(np.all(comp % comps == k))             # component k still holds component k
            e["m2c"] = tags(comp // comps) if ok else tags(np.full(comp.shape, -1))
            e["m2cok"] = 1
            e["cshape"] = list(comp.shape)
            b = safe(darsia.cartesianToMatrixIndexing, np.asarray(r).copy())
            e["back"] = "ERR" if b is None else ("same" if np.asarray(b).shape == a.shape and np.array_equal(b, a * comps + marks) else "different")
        out.append(e)
    return out


def run(ck, replay=None):
    ck.sany("MC_Axes", "Trace_Axes")
    r = ck.model_check("MC_Axes", "MC_Axes.cfg", workers=2)
    scn = {tuple(p[1]): [tuple(t) for t in p[2]] for p in r.printed("SCN")}
    tables = {len(s): t for s, t in scn.items()}
    darsia = import_darsia()
    rng = random.Random(ck.seed)
    from checks.common import axis_twins
    ck.cov["twin_object_histories"] = axis_twins(ck, darsia, "C20", ck.tier == "quick")
    events = [helper_tables(darsia, n, tables[n], rng) for n in (1, 2, 3)]
    shapes = sorted(scn)
    if ck.tier == "thorough":
        shapes += [tuple(rng.randint(1, 6) for _ in range(rng.choice([2, 3]))) for _ in range(30)]
    for s in shapes:
        sid = "x".join(map(str, s))
        events.append(layout_event(darsia, s, f"layout:{sid}"))
        if len(s) == 2:       # (1-D and 3-D inverses are open findings; the 2-D pair is the one in use)
            events += layout_events_payload(darsia, s, 3, f"layoutc:{sid}")
        if len(s) >= 2:
            events += slice_events(darsia, rng, s, tables[len(s)], f"axes:{sid}")
    # observed executions: every distinct interpret_indexing call made while the repository's own unit tests run
    # (images, coordinate systems, arithmetic, patches, grids all go through it) - recorded by lib/suite_recorder.py
    events += ck.record_suite("axes", ["test_image.py", "test_coordinatesystem.py", "test_patches.py", "test_arithmetics.py", "test_dimension_reduction.py", "test_subregion.py",
                               "-knot test_initialize_optical_image"]       # (that one test takes 23 s; the thorough tier runs everything)
                              if ck.tier == "quick" else ["."])
    bad = ck.validate("Trace_Axes", "Trace.cfg", events, chunk=300)
    for b in bad:
        e = b["event"]
        sig = f"C20:{b['clause']}:{e['op']}:{e['n']}d"
        if e["op"] == "call":
            sig += f":{e['fa']}{e['k']}->{e['fi']}"
        if e["op"] in ("slice", "reduce"):
            sig += ":" + "xyz"[e["c"]]
        ck.violation(sig, f"{e['op']} violates {b['clause']} in {e['n']}-D",
                     {k: e[k] for k in e if k in ("n", "shape", "c", "q", "tm", "tmi", "tc", "tci", "m2c", "c2m", "steps", "back", "mode", "fn", "fa", "fi", "k", "res")})
    ck.cov["evaluations"] = len(events)
    ck.cov["distinct_nontrivial"] = len({(e["op"], e["n"], tuple(e.get("shape", [])), e.get("c"), e.get("q")) for e in events if e["n"] >= 2})
    ck.cov["rule"] = "helper tables for dims 1-3 (all axes, both directions, name and int forms); slice/reduce by every Cartesian name vs every matrix index at every cut of every shape <= 3 per axis; layout helpers on every shape; non-trivial = dimension >= 2"
    ck.cov["exhaustive"] = True
    ck.cov["samples"] = [events[1], {k: v for k, v in events[-1].items() if k != "byindex"}]
    ck.assumptions += ["by-name operations are compared with the matrix axis the coordinate system (Axes.tla table) associates with the name"]
