"""C18 — saved images and corrections reload to equivalent objects."""
import contextlib
import datetime
import io
import json
import os
import random
import tempfile
import warnings
from pathlib import Path

import numpy as np

from lib.core import import_darsia

LEVEL = "model_checking"
BASE_DATE = datetime.datetime(2023, 5, 6, 7, 8, 9)


def project(img):
    def q(v):
        return [int(round(1e6 * float(x))) for x in np.asarray(v, dtype=float).ravel()]

    def tn(t):
        return -1 if t is None else int(round(1000 * float(t)))

    def dn(d):
        return -1 if d is None else int(round(1000 * (d - BASE_DATE).total_seconds()))       # milliseconds
    time = img.time if isinstance(img.time, list) else [img.time]
    date = img.date if isinstance(img.date, list) else [img.date]
    return {"shape": [int(s) for s in img.img.shape], "tags": [int(x) for x in np.asarray(img.img).astype(np.int64).ravel()],
            "dtype": str(img.img.dtype), "space_dim": int(img.space_dim), "series": int(bool(img.series)), "scalar": int(bool(img.scalar)),
            "origin": q(img.origin), "dims": q(img.dimensions), "time": [tn(t) for t in time] + [int(isinstance(img.time, list))],
            "date": [dn(d) for d in date] + [int(isinstance(img.date, list))], "name": str(img.name), "indexing": str(img.indexing),
            "colour": (str(getattr(img, "color_space", "?")) + ":" + type(img).__name__) if (hasattr(img, "color_space") or type(img).__name__ == "OpticalImage") else "none"}


def make_image(darsia, rng, cfg):
    n = cfg["dim"]
    shape = tuple(rng.randint(1, 3) for _ in range(n))
    T = rng.choice([1, 2, 3, 3, 11, 12, 23])    # series of one slice, a few, and more than ten (two-digit member / index names)
    full = shape + ((T,) if cfg["series"] else ()) + (() if cfg["scalar"] else (2,))
    size = int(np.prod(full))
    dt = cfg["dtype"]
    if dt == "bool":
        arr = (np.arange(size) % 2 == 0).reshape(full)
    elif dt in ("uint8", "uint16"):
        arr = (np.arange(size) * 7 % 251).astype(dt).reshape(full)
    else:
        arr = np.arange(size, dtype=dt).reshape(full)
    kw = dict(space_dim=n, dimensions=[0.5 * (a + 1) * shape[a] for a in range(n)], scalar=bool(cfg["scalar"]), series=bool(cfg["series"]))
    if cfg["named"]:
        kw["name"] = "probe image"
    if cfg["origin"] == "user":
        kw["origin"] = [1.5 * (a + 1) for a in range(n)]
    if cfg["timekind"] in ("dates", "both"):
        # (acquisition dates by turns: whole seconds; burst frames milliseconds apart; days apart)
        DSTEP[0] += 1
        dstep = [7.0, 0.004, 93600.5][DSTEP[0] % 3]
        kw["date"] = [BASE_DATE + datetime.timedelta(seconds=dstep * i + (0.25 if dstep < 1 else 0.0)) for i in range(T)] if cfg["series"] else \
            BASE_DATE + datetime.timedelta(seconds=(0.125 if DSTEP[0] % 3 == 1 else 0.0))
    if cfg["timekind"] in ("times", "both"):
        kw["time"] = [2.5 * i + 1 for i in range(T)] if cfg["series"] else 4.5
    with warnings.catch_warnings():
        warnings.simplefilter("ignore")
        if n == 2 and not cfg["scalar"] and dt in ("uint8", "uint16", "float32", "float64") and rng.random() < 0.6:
            # an optical image: three colour components in one of the supported colour spaces
            full3 = shape + ((T,) if cfg["series"] else ()) + (3,)
            arr3 = (np.arange(int(np.prod(full3))) * 7 % 251).astype(dt).reshape(full3)
            kw.pop("space_dim")
            kw.pop("scalar")
            return darsia.OpticalImage(arr3, color_space=rng.choice(["RGB", "BGR", "HSV"]), **kw)
        return darsia.Image(arr, **kw)


DSTEP = [-1]


def npz_event(darsia, rng, cfg, tid, work):
    e = {"tid": tid, "op": "npz", "cfg": cfg, "raised": 0, "before": {}, "after": {}}
    try:
        img = make_image(darsia, rng, cfg)
        e["before"] = project(img)
        path = os.path.join(work, f"img_{rng.randrange(10**9)}.npz")
        with contextlib.redirect_stdout(io.StringIO()), warnings.catch_warnings():
            warnings.simplefilter("ignore")
            img.save(path)
            back = darsia.imread(path)
        e["after"] = project(back)
        os.remove(path)
    except Exception as ex:  # noqa
        e["raised"] = 1
        e["error"] = repr(ex)[:200]
    return e


BPAT = [-1]


def bytes_event(darsia, rng, fmt, bits, layout, tid, shape=None):
    import cv2
    dt = np.uint8 if bits == 8 else np.uint16
    H, W = shape or (rng.randint(2, 4), rng.randint(2, 4))
    top = 250 if bits == 8 else 60000
    if layout == "colour":
        arr = (np.arange(H * W * 3).reshape(H, W, 3) * 37 % top).astype(dt)
        # (what the colour image shows, by turns: generic; grey values - the three channels equal; all black; one saturated pixel)
        BPAT[0] += 1
        if BPAT[0] % 4 == 1:
            arr = np.repeat(arr[..., :1], 3, axis=2)
        elif BPAT[0] % 4 == 2:
            arr = np.zeros_like(arr)
        elif BPAT[0] % 4 == 3:
            arr = np.zeros_like(arr)
            arr[-1, -1] = top
        enc_in = arr[..., ::-1]  # encoder expects BGR
    elif layout == "single":
        arr = (np.arange(H * W).reshape(H, W, 1) * 37 % top).astype(dt)
        enc_in = arr
    else:
        arr = (np.arange(H * W).reshape(H, W) * 37 % top).astype(dt)
        enc_in = arr
    e = {"tid": tid, "op": "bytes", "fmt": fmt, "bits": bits, "layout": layout, "raised": 0, "tags": [int(x) for x in arr.ravel()], "decoded": [], "kind": "", "dtype": str(np.dtype(dt)), "ddtype": ""}
    try:
        ok, buf = cv2.imencode("." + fmt, np.ascontiguousarray(enc_in))
        assert ok
        with warnings.catch_warnings():
            warnings.simplefilter("ignore")
            img = darsia.imread_from_bytes(buf.tobytes(), dimensions=[1.0, 1.0], **({"color_space": "RGB"} if layout == "colour" else {}))
        e["decoded"] = [int(x) for x in np.asarray(img.img).ravel()]
        e["kind"] = type(img).__name__
        e["ddtype"] = str(img.img.dtype)
    except Exception as ex:  # noqa
        e["raised"] = 1
        e["error"] = repr(ex)[:200]
    return e


def write_event(darsia, rng, bits, tid, work):
    dt = np.uint8 if bits == 8 else np.uint16
    H, W = rng.randint(2, 5), rng.randint(2, 5)
    top = 250 if bits == 8 else 60000
    arr = (np.arange(H * W * 3).reshape(H, W, 3) * 41 % top).astype(dt)
    e = {"tid": tid, "op": "write", "bits": bits, "raised": 0, "tags": [int(x) for x in arr.ravel()], "readback": []}
    try:
        path = Path(work) / f"opt_{rng.randrange(10**9)}.{'png' if bits == 8 else 'tif'}"
        with contextlib.redirect_stdout(io.StringIO()), warnings.catch_warnings():
            warnings.simplefilter("ignore")
            img = darsia.OpticalImage(arr.copy(), color_space="RGB", dimensions=[1.0, 1.0])
            img.write(path)
            back = darsia.imread(path, dimensions=[1.0, 1.0])
        rb = np.asarray(back.img)
        if rb.dtype.kind == "f":   # the optical reader documents conversion to float in [0, 1]: same colours up to the dtype range
            v = rb.astype(float) * (255 if bits == 8 else 65535)
            rb = np.where(np.abs(v - np.round(v)) < 1e-6, np.round(v), -1)
        e["readback"] = [int(x) for x in rb.ravel()]
        if type(back).__name__ != "OpticalImage" or back.color_space != "RGB":
            e["readback"] = [-2]
    except Exception as ex:  # noqa
        e["raised"] = 1
        e["error"] = repr(ex)[:200]
    return e


PLAIN = (int, float, complex, str, bool, bytes, type(None), slice, np.generic, np.dtype, type)


def state_diff(a, b, path="", out=None, depth=0):
    """Paths of plain-data fields (numbers, flags, slices, dtypes, arrays, containers, darsia images / nested objects' fields)
    in which two objects differ; fields that hold anything else (callables, handles) are not compared."""
    out = [] if out is None else out
    if depth > 8:
        return out
    if isinstance(a, np.ndarray) or isinstance(b, np.ndarray):
        try:
            x, y = np.asarray(a), np.asarray(b)
            if x.shape != y.shape or x.dtype != y.dtype or not np.array_equal(x, y):
                out.append(path)
        except Exception:  # noqa
            out.append(path)
    elif isinstance(a, dict) and isinstance(b, dict):
        for k in sorted(set(a) | set(b), key=str):
            if k not in a or k not in b:
                out.append(f"{path}.{k}")
            else:
                state_diff(a[k], b[k], f"{path}.{k}", out, depth + 1)
    elif isinstance(a, (list, tuple)) and isinstance(b, (list, tuple)):
        if len(a) != len(b):
            out.append(path)
        else:
            for i, (x, y) in enumerate(zip(a, b)):
                state_diff(x, y, f"{path}[{i}]", out, depth + 1)
    elif isinstance(a, PLAIN) and isinstance(b, PLAIN):
        if type(a) != type(b) or a != b:
            if not (isinstance(a, float) and isinstance(b, float) and a != a and b != b):
                out.append(path)
    elif type(a) == type(b) and hasattr(a, "__dict__") and not callable(a) and type(a).__module__.startswith("darsia"):
        state_diff(vars(a), vars(b), path, out, depth + 1)
    return out


def correction_events(darsia, rng, work, reps):
    ev = []
    alive = []
    for rep in range(reps):
        H, W = rng.randint(5, 8), rng.randint(5, 8)
        rs = np.random.RandomState(rng.randrange(10 ** 6))
        probe = rs.rand(H, W, 3)
        cands = []
        cands.append(("TypeCorrection", lambda: darsia.TypeCorrection(rng.choice([np.float32, np.float64, np.uint8])), (rs.rand(H, W, 3)).astype(np.float64)))
        # every spelling of a target type (builtin float / int / bool are not the numpy types of the same width: float keeps a
        # float32 image, np.float64 widens it) on every pixel type
        TYPES = [float, np.float32, np.float64, np.uint8, np.uint16, bool]
        tt = TYPES[(rep * 2) % len(TYPES)], TYPES[(rep * 2 + 1) % len(TYPES)]
        for t_ in tt:
            for in_dt in (np.float32, np.uint8, np.float64):
                arr_in = (rs.rand(H, W, 3) * (255 if in_dt == np.uint8 else 1)).astype(in_dt)
                cands.append(("TypeCorrection", (lambda t_=t_: darsia.TypeCorrection(t_)), arr_in))
        cands.append(("DriftCorrection", lambda: darsia.DriftCorrection(rs.rand(H, W, 3), config={"active": False, "padding": rng.choice([0.1, 0.25]), "roi": (slice(0, 2), slice(1, 3))}), probe))
        cands.append(("DriftCorrection", lambda: darsia.DriftCorrection(rs.rand(H, W, 3), config={"active": False, "padding": 0.0, "roi": (slice(1, 3), slice(0, 2))}), probe))
        cands.append(("DriftCorrection", lambda: darsia.DriftCorrection(rs.rand(H, W, 3), config={"active": False, "padding": rng.choice([0.1, 0.3]), "roi": np.array([[1, 1], [H - 2, W - 2]])}), probe))
        zero = {"horizontal_bulge": rng.choice([0.0, 1e-3]), "horizontal_center_offset": 0, "vertical_bulge": 0.0, "vertical_center_offset": 0}
        cands.append(("CurvatureCorrection", lambda: darsia.CurvatureCorrection(config={"bulge": dict(zero)}), probe))

        # curvature correction with a crop defined by corner voxels (as set by crop(): a VoxelArray in (row, column) order)
        crop_cfg = {"crop": {"pts_src": darsia.make_voxel([[0, 0], [H - 1, 0], [H - 1, W - 2], [0, W - 2]]), "width": 0.25 * (W - 2), "height": 0.25 * (H - 1), "in meters": True},
                    "bulge": dict(zero)}
        cands.append(("CurvatureCorrection", lambda: darsia.CurvatureCorrection(config=dict(crop_cfg)), probe))

        def illum():
            ic = darsia.IlluminationCorrection()
            ic.colorspace = rng.choice(["rgb", "rgb-scalar"])
            ic.local_scaling = [darsia.ScalarImage(0.5 + rs.rand(H, W), dimensions=[1.0, 1.0]) for _ in range(3 if ic.colorspace == "rgb" else 1)]
            return ic
        cands.append(("IlluminationCorrection", illum, probe))
        cands.append(("ColorCorrection", lambda: darsia.ColorCorrection(config={"active": False, "roi": [[0, 0], [H - 1, 0], [H - 1, W - 1], [0, W - 1]], "whitebalancing": rng.random() < 0.5}), probe))
        def relcol():
            rc = darsia.RelativeColorCorrection(baseline=darsia.OpticalImage(rs.rand(H, W, 3), color_space="RGB", dimensions=[1.0, 1.0]))
            return rc
        cands.append(("RelativeColorCorrection", relcol, probe))
        for name, make, inp in cands:
            e = {"tid": f"corr:{name}:{rep}:{len(ev)}", "op": "correction", "cls": name, "rcls": "", "raised": 0, "same_output": 0, "state_diff": []}
            try:
                with contextlib.redirect_stdout(io.StringIO()), warnings.catch_warnings():
                    warnings.simplefilter("ignore")
                    c = make()
                    path = Path(work) / f"corr_{name}_{rng.randrange(10**9)}.npz"
                    c.save(path)
                    back = darsia.read_correction(path)
                    o1 = np.asarray(c.correct_array(inp.copy()))
                    o2 = np.asarray(back.correct_array(inp.copy()))
                e["rcls"] = type(back).__name__
                e["state_diff"] = state_diff(vars(c), vars(back))[:6]
                e["same_output"] = int(o1.shape == o2.shape and o1.dtype == o2.dtype and np.array_equal(o1, o2))
                alive.append((e, c, back, inp))
            except Exception as ex:  # noqa
                e["raised"] = 1
                e["error"] = repr(ex)[:200]
            ev.append(e)
    # every reloaded correction is kept and applied once more after all the others have been reloaded and used: it still is
    # the correction it was saved from (reloaded objects of one class are independent of one another)
    for (e, c, back, inp) in alive:
        try:
            with contextlib.redirect_stdout(io.StringIO()), warnings.catch_warnings():
                warnings.simplefilter("ignore")
                o1 = np.asarray(c.correct_array(inp.copy()))
                o2 = np.asarray(back.correct_array(inp.copy()))
            if not (o1.shape == o2.shape and o1.dtype == o2.dtype and np.array_equal(o1, o2)):
                e["same_output"] = 0
            if state_diff(vars(c), vars(back)):
                e["state_diff"] = (e["state_diff"] + state_diff(vars(c), vars(back)))[:6]
        except Exception as ex:  # noqa
            e["raised"] = 1
            e["error"] = "later application: " + repr(ex)[:180]
    return ev


def run(ck, replay=None):
    ck.sany("MC_Persistence", "Trace_Persistence")
    r = ck.model_check("MC_Persistence", "MC_Persistence.cfg", workers=2)
    cfgs = [p[1] for p in r.printed("SCN")]
    darsia = import_darsia()
    rng = random.Random(ck.seed)
    quick = ck.tier == "quick"
    work = tempfile.mkdtemp(prefix="c18-", dir=ck.work)
    # two corrections of one class with other configurations, both saved and read back ("make" = read_correction), used along
    # every interleaving of spec/TwoObjects.tla: each reloaded correction is the one IT was saved from
    from lib import twoobj
    thists = twoobj.histories(ck)
    tspecs = []
    Ht, Wt = 6, 7
    tin = np.random.RandomState(12).rand(Ht, Wt, 3)
    zero_b = {"horizontal_bulge": 0.0, "horizontal_center_offset": 0, "vertical_bulge": 0.0, "vertical_center_offset": 0}

    def mk_illum(o):
        ic = darsia.IlluminationCorrection()
        ic.colorspace = "rgb-scalar"
        ic.local_scaling = [darsia.ScalarImage(np.full((Ht, Wt), 2.0 if o == "a" else 0.5), dimensions=[1.0, 1.0])]
        return ic

    originals = {"curvature": lambda o: darsia.CurvatureCorrection(config={"bulge": dict(zero_b, horizontal_bulge=1e-3 if o == "a" else 0.0, vertical_bulge=0.0 if o == "a" else 2e-3)}),
                 "illumination": mk_illum, "type": lambda o: darsia.TypeCorrection(np.float32 if o == "a" else np.float64)}
    for kind, mk in originals.items():
        paths, expected = {}, {}
        for o in ("a", "b"):
            with contextlib.redirect_stdout(io.StringIO()), warnings.catch_warnings():
                warnings.simplefilter("ignore")
                c0 = mk(o)
                paths[o] = Path(work) / f"twin_{kind}_{o}.npz"
                c0.save(paths[o])

        def make(o, paths=paths):
            with contextlib.redirect_stdout(io.StringIO()), warnings.catch_warnings():
                warnings.simplefilter("ignore")
                return darsia.read_correction(paths[o])

        def use(o, corr):
            with contextlib.redirect_stdout(io.StringIO()), warnings.catch_warnings():
                warnings.simplefilter("ignore")
                r_ = np.asarray(corr.correct_array(tin.copy()))
            return [np.asarray(r_, dtype=float), np.array([r_.dtype.itemsize], dtype=float)]

        sel = thists if not quick else [h for h in thists if len(h) <= 4]
        tspecs.append((sel, "reloaded-" + kind, make, use, lambda x, y: all(p_.shape == q_.shape and np.allclose(p_, q_, rtol=1e-6, atol=1e-7) for p_, q_ in zip(x, y)), "twin:" + kind))
    ck.cov["twin_object_histories"] = twoobj.run(ck, "C18", tspecs)
    sel = cfgs if not quick else rng.sample(cfgs, 160)
    events = []
    for i, cfg in enumerate(sel):
        events.append(npz_event(darsia, rng, cfg, f"npz:{i}", work))
    for fmt in ("png", "tiff"):
        for bits in (8, 16):
            for layout in ("grey", "single", "colour"):
                events.append(bytes_event(darsia, rng, fmt, bits, layout, f"bytes:{fmt}:{bits}:{layout}"))
                # ... and the smallest images: one pixel along an axis, a single pixel
                thin = [(1, 3), (4, 1), (1, 1)][len(events) % 3]
                events.append(bytes_event(darsia, rng, fmt, bits, layout, f"bytes:{fmt}:{bits}:{layout}:{thin[0]}x{thin[1]}", shape=thin))
    for bits in (8, 16):
        for rep in range(2 if quick else 10):
            events.append(write_event(darsia, rng, bits, f"write:{bits}:{rep}", work))
    events += correction_events(darsia, rng, work, 1 if quick else 3)
    bad = ck.validate("Trace_Persistence", "Trace.cfg", events, weight=lambda e: 5 + len(e.get("before", {}).get("tags", [])), budget=8000)
    for b in bad:
        e = b["event"]
        if e["op"] == "npz":
            c = e["cfg"]
            sig = f"C18:{b['clause']}:npz:" + ("series" if c["series"] else "single") + ":" + c["timekind"] + ":" + c["dtype"]
        elif e["op"] == "bytes":
            sig = f"C18:{b['clause']}:bytes:{e['fmt']}:{e['bits']}:{e['layout']}"
        elif e["op"] == "write":
            sig = f"C18:{b['clause']}:write:{e['bits']}bit"
        else:
            sig = f"C18:{b['clause']}:correction:{e['cls']}"
        ck.violation(sig, f"{e['op']} violates {b['clause']}", {k: v for k, v in e.items() if k in ("cfg", "fmt", "bits", "layout", "cls", "rcls", "error")} | ({"before": {k: v for k, v in e["before"].items() if k != "tags"}, "after": {k: v for k, v in e["after"].items() if k != "tags"}} if e["op"] == "npz" else {}))
    ck.cov["evaluations"] = len(events)
    ck.cov["distinct_nontrivial"] = len({json.dumps(e.get("cfg", [e.get("fmt"), e.get("bits"), e.get("layout"), e.get("cls")]), sort_keys=True) for e in events})
    ck.cov["rule"] = "metadata configurations enumerated by TLC (960: dim x series x scalar x dtype x time kind (dates / times / both / none) x name x origin), each saved and reloaded with an arange payload; all 12 byte formats (png/tiff x 8/16 bit x grey/single-channel/colour); optical write/read for 8/16 bit; save/read_correction for type, drift, curvature, illumination and colour corrections"
    ck.cov["exhaustive"] = not quick
    ck.cov["samples"] = [events[0]["cfg"], {k: v for k, v in events[0]["before"].items() if k != "tags"}]
    ck.assumptions += ["files are written under a run-private temporary directory and removed", "colour correction is saved in inactive configuration (an active one needs a colour-checker image)"]
