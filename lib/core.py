"""Shared machinery: TLC/SANY runner, trace validation, verdicts, evidence.

Exit codes of a check: 0 property held on everything explored (known findings
are printed as KNOWN-FINDING lines), 1 VIOLATION, 2 machinery failure.
"""
from __future__ import annotations

import fnmatch
import hashlib
import json
import os
import re
import shutil
import subprocess
import sys
import tempfile
import time

VERIF = os.path.dirname(os.path.dirname(os.path.abspath(__file__)))
OUT = os.environ.get("VERIF_OUT", VERIF)  # evidence/replays go here (self-tests redirect it)
SPEC = os.path.join(VERIF, "spec")
JAR = "/opt/veriftools/tla/tla2tools.jar:/opt/veriftools/tla/CommunityModules-deps.jar"
NCPU = os.cpu_count() or 4


class MachineryError(Exception):
    pass


def repo_root() -> str:
    return os.environ.get("DARSIA_REPO", "/repo")


def import_darsia():
    """Import darsia from the current working tree of the repository."""
    src = os.path.join(repo_root(), "src")
    if sys.path[0] != src:
        sys.path.insert(0, src)
    os.environ.setdefault("DARSIA_VERIF", "1")
    import warnings

    warnings.filterwarnings("ignore")
    import darsia  # noqa

    got = os.path.realpath(os.path.dirname(os.path.dirname(darsia.__file__)))
    if got != os.path.realpath(src):
        raise MachineryError(f"darsia imported from {got}, expected {src}")
    return darsia


class TLCResult:
    def __init__(self, out: str, rc: int, wall: float):
        self.out = out
        self.rc = rc
        self.wall = wall
        m = re.findall(r"(\d+) states generated, (\d+) distinct states found", out)
        self.generated = int(m[-1][0]) if m else 0
        self.distinct = int(m[-1][1]) if m else 0
        self.ok = "Model checking completed. No error has been found." in out or (
            "Finished in" in out and "Error:" not in out and rc == 0
        )
        self.violated = re.findall(r"Invariant (\S+) is violated", out) + re.findall(
            r"Action property (\S+) is violated", out
        )
        self.error = None
        if not self.ok:
            m = re.search(r"Error: (.*)", out)
            self.error = m.group(1) if m else f"rc={rc}"
        m = re.search(r"The depth of the complete state graph search is (\d+)", out)
        self.depth = int(m.group(1)) if m else 0

    def printed(self, tag: str):
        """Values printed by PrintT(<<"TAG", ...>>) as python lists (TLC wraps long values over lines)."""
        res = []
        lines = self.out.splitlines()
        i = 0
        start = re.compile(r'^<<\s*"' + re.escape(tag) + '"')
        while i < len(lines):
            line = lines[i].strip()
            if start.match(line):
                buf = line
                while buf.count("<<") > buf.count(">>") and i + 1 < len(lines):
                    i += 1
                    buf += " " + lines[i].strip()
                res.append(parse_tla(buf))
            i += 1
        # TLC's workers print in any order: scenario lists are returned in a canonical order, so that a seeded selection from
        # them is the same in every run (verdict lines of the single-worker trace validation keep their order)
        if tag not in ("BAD", "DONE", "DRIFT"):
            res.sort(key=lambda v: json.dumps(v, sort_keys=True, default=str))
        return res

    def coverage(self):
        """action name -> (distinct, total) from -coverage output."""
        cov = {}
        for m in re.finditer(r"<(\w+) line \d+, col \d+ to line \d+, col \d+ of module (\w+)>: (\d+):(\d+)", self.out):
            cov[m.group(1)] = (int(m.group(3)), int(m.group(4)))
        return cov


def parse_tla(s: str):
    """Parse a printed TLA+ value made of tuples, strings, ints, bools, sets, records."""
    pos = 0

    def ws():
        nonlocal pos
        while pos < len(s) and s[pos] in " \n\t":
            pos += 1

    def val():
        nonlocal pos
        ws()
        if s.startswith("<<", pos):
            pos += 2
            items = []
            ws()
            if s.startswith(">>", pos):
                pos += 2
                return items
            while True:
                items.append(val())
                ws()
                if s.startswith(">>", pos):
                    pos += 2
                    return items
                assert s[pos] == ",", (s, pos)
                pos += 1
        if s[pos] == "{":
            pos += 1
            items = []
            ws()
            if s[pos] == "}":
                pos += 1
                return items
            while True:
                items.append(val())
                ws()
                if s[pos] == "}":
                    pos += 1
                    return items
                assert s[pos] == ",", (s, pos)
                pos += 1
        if s[pos] == "[":
            pos += 1
            rec = {}
            while True:
                ws()
                m = re.compile(r"(\w+)\s*\|->").match(s, pos)
                assert m, (s, pos)
                pos = m.end()
                rec[m.group(1)] = val()
                ws()
                if s[pos] == "]":
                    pos += 1
                    return rec
                assert s[pos] == ",", (s, pos)
                pos += 1
        if s[pos] == '"':
            end = pos + 1
            while s[end] != '"':
                if s[end] == "\\":
                    end += 1
                end += 1
            r = s[pos + 1 : end].replace('\\"', '"')
            pos = end + 1
            return r
        m = re.compile(r"-?\d+").match(s, pos)
        if m:
            pos = m.end()
            return int(m.group(0))
        m = re.compile(r"TRUE|FALSE").match(s, pos)
        if m:
            pos = m.end()
            return m.group(0) == "TRUE"
        raise ValueError(f"cannot parse TLA value at {pos}: {s[pos:pos+40]!r}")

    return val()


class Check:
    def __init__(self, pid: str, tier: str, seed: int, level: str):
        self.pid = pid
        self.tier = tier
        self.seed = seed
        self.level = level
        self.t0 = time.time()
        self.work = tempfile.mkdtemp(prefix=f"verif-{pid}-")
        self.violations = []  # dicts: signature, what, detail
        self.notes = []
        self.cov = {
            "states": 0,
            "transitions": 0,
            "traces_validated_against_impl": 0,
            "evaluations": 0,
            "distinct_nontrivial": 0,
            "rule": "",
            "samples": [],
            "tlc_runs": [],
        }
        self.assumptions = []

    # ------------------------------------------------------------------ TLC
    def _java(self, big: bool):
        if big:
            return ["java", "-Xss64m", "-Xmx12g", "-XX:+UseParallelGC", "-XX:ParallelGCThreads=4"]
        return ["java", "-Xss64m", "-Xmx3g", "-XX:+UseSerialGC", "-XX:TieredStopAtLevel=1"]

    def sany(self, *modules):
        for mod in modules:
            p = subprocess.run(
                ["java", "-XX:+UseSerialGC", "-XX:TieredStopAtLevel=1", "-cp", JAR, "tla2sany.SANY", mod + ".tla"],
                cwd=SPEC, capture_output=True, text=True, timeout=300,
            )
            if p.returncode != 0 or "Semantic errors" in p.stdout or "Parse Error" in p.stdout or "***Parse" in p.stdout:
                raise MachineryError(f"sany failed on {mod}:\n{p.stdout[-3000:]}")

    def tlc(self, module: str, cfg: str | None = None, env: dict | None = None, workers: int = 1,
            big: bool = False, coverage: bool = False, extra: list | None = None,
            timeout: int = 3600, label: str | None = None, expect_ok: bool = True) -> TLCResult:
        meta = tempfile.mkdtemp(prefix="meta-", dir=self.work)
        cmd = self._java(big) + ["-cp", JAR, "tlc2.TLC", "-workers", str(workers), "-metadir", meta,
                                 "-noGenerateSpecTE", "-nowarning"]
        if coverage:
            cmd += ["-coverage", "1"]
        if cfg:
            cmd += ["-config", cfg]
        cmd += (extra or []) + [module + ".tla"]
        e = dict(os.environ)
        e.update(env or {})
        t = time.time()
        try:
            p = subprocess.run(cmd, cwd=SPEC, capture_output=True, text=True, timeout=timeout, env=e)
        except subprocess.TimeoutExpired:
            raise MachineryError(f"TLC timeout on {module} {cfg}")
        finally:
            shutil.rmtree(meta, ignore_errors=True)
        r = TLCResult(p.stdout + p.stderr, p.returncode, time.time() - t)
        self.cov["tlc_runs"].append({"module": module, "cfg": cfg, "label": label, "generated": r.generated,
                                     "distinct": r.distinct, "wall_s": round(r.wall, 2), "ok": r.ok})
        if expect_ok and not r.ok:
            raise MachineryError(f"TLC failed on {module} {cfg}: {r.error}\n{r.out[-1500:]}")
        return r

    def apalache(self, module: str, inv: str, init: str = "Init", cinit: str | None = None, expect_error: bool = False,
                 timeout: int = 900) -> bool:
        """Unbounded lemma of a specification (spec/unbounded/<module>.tla) decided by Apalache at length 0: the initial
        states are all integer valuations in the lemma's precondition, `inv` is the lemma.  With expect_error the run is
        a vacuity guard: Apalache has to refute `inv`.  A timeout / tool failure is a note, not a verdict (the bounded TLC
        run of the same definitions stands on its own); a wrong outcome is a machinery failure."""
        out = tempfile.mkdtemp(prefix="apa-", dir=self.work)
        src = os.path.join(SPEC, "unbounded")
        for f in os.listdir(src):          # run on a scratch copy: the tool leaves directories next to the module
            if f.endswith(".tla"):
                shutil.copy(os.path.join(src, f), out)
        cmd = ["apalache-mc", "check", f"--init={init}", f"--inv={inv}", "--length=0", f"--out-dir={out}/out"]
        if cinit:
            cmd.append(f"--cinit={cinit}")
        cmd.append(module + ".tla")
        t = time.time()
        try:
            p = subprocess.run(cmd, cwd=out, capture_output=True, text=True, timeout=timeout)
        except (subprocess.TimeoutExpired, FileNotFoundError) as ex:
            self.note(f"apalache {module} {inv}: not decided ({type(ex).__name__})")
            return False
        finally:
            shutil.rmtree(out, ignore_errors=True)
        ok = "The outcome is: NoError" in p.stdout
        err = "The outcome is: Error" in p.stdout
        self.cov["tlc_runs"].append({"module": module, "cfg": f"apalache --init={init} --inv={inv} --length=0", "label": "unbounded-lemma" if not expect_error else "unbounded-lemma-vacuity-guard",
                                     "ok": ok, "violated": [inv] if err else [], "wall_s": round(time.time() - t, 1)})
        if not ok and not err:
            self.note(f"apalache {module} {inv}: not decided ({p.stdout[-300:]!r})")
            return False
        if expect_error != err:
            raise MachineryError(f"apalache {module} {inv}: expected {'a counterexample' if expect_error else 'NoError'}\n{p.stdout[-1500:]}")
        return True

    def model_check(self, module: str, cfg: str, workers: int | None = None, big: bool = False,
                    must_cover: list | None = None, timeout: int = 3600, env: dict | None = None,
                    extra: list | None = None) -> TLCResult:
        """Exhaustive run of a bounded configuration; the spec-level properties must hold."""
        r = self.tlc(module, cfg, workers=workers or (NCPU if big else 4), big=big, coverage=bool(must_cover),
                     timeout=timeout, label="model-check", env=env, extra=extra)
        self.cov["states"] += r.distinct
        self.cov["transitions"] += r.generated
        if must_cover:
            cov = r.coverage()
            for a in must_cover:
                if cov.get(a, (0, 0))[1] == 0:
                    raise MachineryError(f"vacuity guard: action {a} of {module} never taken ({cov})")
        return r

    def validate(self, module: str, cfg: str, events: list, label: str = "trace", timeout: int = 3600,
                 chunk: int = 0, weight=None, budget: int = 60000):
        """Validate recorded events against a trace specification.

        Returns list of (tid, line_index, clause) for rejected lines.  Every line
        must be consumed (DONE n printed) or the run is a machinery failure."""
        bad = []
        chunks = [events] if not chunk else [events[i:i + chunk] for i in range(0, len(events), chunk)]
        if weight is not None:  # split by cumulative weight (e.g. number of logged points)
            chunks, cur, acc = [], [], 0
            for ev in events:  # never split the events of one trace id over two runs
                if acc >= budget and cur and ev.get("tid") != cur[-1].get("tid"):
                    chunks.append(cur)
                    cur, acc = [], 0
                cur.append(ev)
                acc += weight(ev)
            if cur:
                chunks.append(cur)
        import itertools
        from concurrent.futures import ThreadPoolExecutor
        counter = itertools.count(1)

        def run_chunk(evs):
            path = os.path.join(self.work, f"{module}-{label}-{next(counter)}.ndjson")
            with open(path, "w") as f:
                for ev in evs:
                    f.write(json.dumps(ev, separators=(",", ":")) + "\n")
            return self.tlc(module, cfg, env={"TRACE_FILE": path}, workers=1, label=label, timeout=timeout, expect_ok=False)

        def collect(evs, r):
            done = r.printed("DONE")
            if not done or done[-1][1] != len(evs):
                raise MachineryError(f"trace run of {module} consumed {done} of {len(evs)} lines\n{r.out[-3000:]}")
            for b in r.printed("BAD"):
                ev = evs[b[2] - 1]
                for cl in (b[3] if isinstance(b[3], list) else [b[3]]):
                    bad.append({"tid": b[1], "line": b[2], "clause": cl, "extra": b[4:], "event": ev})
            drift = r.printed("DRIFT")
            if drift:
                self.cov.setdefault("model_drift", [])
                self.cov["model_drift"] += [{"tid": d[1], "what": d[3]} for d in drift[:20]]
                print(f"MODEL-DRIFT: {len(drift)} record(s) satisfy the property but differ from the as-built convention of the specification ({drift[0][3]})")
            self.cov["states"] += r.distinct
            self.cov["transitions"] += r.generated

        def groups_of(evs):
            gs = []
            for ev in evs:
                if gs and gs[-1][-1].get("tid") == ev.get("tid"):
                    gs[-1].append(ev)
                else:
                    gs.append([ev])
            return gs

        outside = []

        def settle(gs):
            """TLC could not evaluate the trace specification on these traces: a recorded value lies outside the domain
            the specification can interpret (an index that denotes nothing, a record of the wrong shape).  Such a trace
            is not a behaviour of the specification - it is rejected with the clause OutsideSpecDomain.  Traces are
            isolated by bisection; if most traces are affected the cause is the machinery, not a trace."""
            evs = [e for g in gs for e in g]
            r = run_chunk(evs)
            if r.ok:
                collect(evs, r)
                return
            if len(gs) == 1:
                outside.append((gs[0], r.error))
                return
            settle(gs[:len(gs) // 2])
            settle(gs[len(gs) // 2:])

        todo = [evs for evs in chunks if evs]
        # the chunks are independent TLC runs (one JVM each, one worker): up to six at a time, verdicts collected in order
        with ThreadPoolExecutor(max_workers=max(1, min(6, len(todo)))) as pool:
            results = list(pool.map(run_chunk, todo))
        for evs, r in zip(todo, results):
            if r.ok:
                collect(evs, r)
                continue
            if "imeout" in (r.error or "") or "OutOfMemory" in r.out or "Parse" in (r.error or "") or "Semantic errors" in r.out or "***Parse" in r.out:
                raise MachineryError(f"TLC failed on {module} {cfg}: {r.error}\n{r.out[-1500:]}")
            settle(groups_of(evs))
        ntids = len({e.get("tid") for e in events})
        if outside and (len(outside) > 25 or (ntids >= 4 and 2 * len(outside) > ntids)):
            raise MachineryError(f"TLC could not evaluate {module} on {len(outside)} of {ntids} traces: {outside[0][1]}")
        for g, err in outside:
            bad.append({"tid": g[0].get("tid"), "line": 0, "clause": "OutsideSpecDomain", "extra": [str(err)[:200]], "event": g[-1]})
        self.cov["traces_validated_against_impl"] += len({e.get("tid") for e in events})
        return bad

    def record_suite(self, what: str, tests: list, timeout: int = 1200) -> list:
        """Run some of the repository's own unit tests with lib.suite_recorder switched on and return the recorded events
        (observed executions of the real code, to be validated against a trace specification).  The tests come from the tree
        under check when it has them (DARSIA_REPO/tests), else from /repo/tests, and always import darsia from DARSIA_REPO/src.
        The outcome of the tests themselves is not a verdict of ours; a run that records nothing is a machinery failure."""
        repo = os.environ.get("DARSIA_REPO", "/repo")
        troot = repo if os.path.isdir(os.path.join(repo, "tests", "unit")) else "/repo"
        out = os.path.join(self.work, f"suite-{what.replace(',', '-')}.ndjson")
        env = dict(os.environ)
        env.update({"DARSIA_VERIF_TRACE": out, "DARSIA_VERIF_RECORD": what, "DARSIA_VERIF": "1",
                    "PYTHONPATH": os.pathsep.join([VERIF, os.path.join(repo, "src")])})
        cmd = [sys.executable, "-W", "ignore", "-m", "pytest", "-q", "-p", "no:cacheprovider", "-p", "lib.suite_recorder"] + \
              [t if t.startswith("-") else os.path.join(troot, "tests", "unit", t) for t in tests]      # ("-k", "--deselect=..." pass through)
        try:
            p = subprocess.run(cmd, cwd=self.work, capture_output=True, text=True, timeout=timeout, env=env)
        except subprocess.TimeoutExpired:
            raise MachineryError("recording the repository's unit tests timed out")
        evs = [json.loads(line) for line in open(out)] if os.path.exists(out) else []
        if not evs:
            raise MachineryError(f"the repository's unit tests recorded nothing for {what}:\n{p.stdout[-1500:]}{p.stderr[-500:]}")
        m = re.search(r"(\d+) passed", p.stdout)
        self.cov.setdefault("suite_traces", []).append({"recorded": what, "tests": tests, "events": len(evs), "pytest": (p.stdout.strip().splitlines() or [""])[-1][:120]})
        return evs

    # -------------------------------------------------------------- verdicts
    def violation(self, signature: str, what: str, detail=None):
        self.violations.append({"signature": signature, "what": what, "detail": detail})

    def note(self, msg: str):
        self.notes.append(msg)
        print("NOTE:", msg)

    def finish(self) -> int:
        kf_path = os.path.join(VERIF, "known_findings.json")
        known = []
        if os.path.exists(kf_path):
            known = [k for k in json.load(open(kf_path)) if k["property"] == self.pid and k.get("status") == "open"]
        new, seen_known = [], {}
        for v in self.violations:
            hit = next((k for k in known if fnmatch.fnmatchcase(v["signature"], k["signature"])), None)
            if hit:
                seen_known.setdefault(hit["signature"], (hit, 0))
                seen_known[hit["signature"]] = (hit, seen_known[hit["signature"]][1] + 1)
            else:
                new.append(v)
        for sig, (k, n) in seen_known.items():
            print(f"KNOWN-FINDING: property={self.pid} {k['what']} [signature {sig}; {n} occurrence(s) this run]")
        rc = 0
        groups = {}
        for v in new:
            groups.setdefault(v["signature"], []).append(v)
        for sig, vs in groups.items():
            h = hashlib.sha1(sig.encode()).hexdigest()[:10]
            os.makedirs(os.path.join(OUT, "replays"), exist_ok=True)
            rp = os.path.join(OUT, "replays", f"{self.pid}-{h}.json")
            with open(rp, "w") as f:
                json.dump({"property": self.pid, "signature": sig, "what": vs[0]["what"], "count": len(vs),
                           "seed": self.seed, "tier": self.tier,
                           "cases": [v["detail"] for v in vs[:5]]}, f, indent=1, default=str)
            print(f"VIOLATION property={self.pid} replay={rp}")
            print(f"  signature={sig} what={vs[0]['what']} occurrences={len(vs)}")
            rc = 1
        self.write_evidence(len(new), [k for k, _ in seen_known.values()])
        if not os.environ.get("VERIF_KEEP"):
            shutil.rmtree(self.work, ignore_errors=True)
        if rc == 0:
            print(f"OK property={self.pid} tier={self.tier} seed={self.seed} wall={time.time()-self.t0:.1f}s "
                  f"states={self.cov['states']} traces={self.cov['traces_validated_against_impl']}")
        return rc

    def write_evidence(self, nviol: int, known):
        cov = dict(self.cov)
        cov["known_findings_seen"] = [k["signature"] for k in known]
        cov["notes"] = self.notes
        cov["time_in_tlc_s"] = round(sum(r_.get("wall_s", 0) for r_ in cov.get("tlc_runs", [])), 1)     # the rest is the driver (the library under test)
        if not cov["samples"]:
            cov["samples"] = ["(none)"]
        cov["samples"] = cov["samples"][:6]
        cov.setdefault("explanation", "")
        ev = {
            "property_id": self.pid,
            "tier": self.tier,
            "seed": self.seed,
            "level": self.level,
            "coverage": cov,
            "assumptions": self.assumptions,
            "wall_s": round(time.time() - self.t0, 2),
            "violations": nviol,
        }
        os.makedirs(os.path.join(OUT, "evidence"), exist_ok=True)
        tmp = os.path.join(OUT, "evidence", f".{self.pid}.tmp")
        with open(tmp, "w") as f:
            json.dump(ev, f, indent=1, default=str)
        os.replace(tmp, os.path.join(OUT, "evidence", f"{self.pid}.json"))


def quantize_int(x: float, tol: float = 1e-6):
    """Return the nearest integer if x is within tol*(1+|x|) of it, else None."""
    if x != x or x in (float("inf"), float("-inf")):       # not a number / infinite: not an integer
        return None
    r = round(x)
    if abs(x - r) <= tol * (1 + abs(x)):
        return int(r)
    return None
