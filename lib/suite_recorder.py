"""pytest plugin: record what the library does while the REPOSITORY'S OWN unit tests run.

Loaded with `pytest -p lib.suite_recorder` and switched on by DARSIA_VERIF_TRACE=<ndjson path>.  It wraps public entry
points of darsia from the outside (no source hook): every call made by the test-suite - directly or from inside the
library - is logged at its return in the event format of the corresponding check, and the check validates the log
against its trace specification.  This is the second binding direction (observed executions -> specification); the
first one replays TLC's scenarios into the code.

What is recorded (DARSIA_VERIF_RECORD, comma separated):
  grid        every darsia.Grid constructed (full numbering / connectivity tables; grids up to 150 cells)   -> Trace_Grid
  axes        every call of interpret_indexing / to_matrix_indexing / to_cartesian_indexing                  -> Trace_Axes
  quadrature  every call of gauss / gauss_reference_cell / reference_cell_corners                             -> Trace_Quadrature
"""
import json
import os

_STATE = {"n": 0, "f": None, "seen": set()}


def _emit(ev, key=None):
    if key is not None:
        if key in _STATE["seen"]:
            return
        _STATE["seen"].add(key)
    _STATE["n"] += 1
    ev["tid"] = f"suite:{_STATE['n']}"
    _STATE["f"].write(json.dumps(ev, separators=(",", ":")) + "\n")
    _STATE["f"].flush()


def pytest_configure(config):
    out = os.environ.get("DARSIA_VERIF_TRACE")
    if not out:
        return
    what = set(os.environ.get("DARSIA_VERIF_RECORD", "grid").split(","))
    import darsia
    _STATE["f"] = open(out, "a")

    if "grid" in what:
        from checks.c07 import tables
        orig_init = darsia.Grid.__init__

        def init(self, *a, **k):
            orig_init(self, *a, **k)
            try:
                if int(self.num_cells) <= 150:
                    ev = tables(self, "")
                    _emit(ev, key=("grid", json.dumps({x: y for x, y in ev.items() if x != "tid"}, sort_keys=True)))
            except Exception as ex:  # noqa  - a grid the tables cannot be read from is itself an observation
                _emit({"shape": [int(s) for s in getattr(self, "shape", [])], "unreadable": repr(ex)[:120]})
        darsia.Grid.__init__ = init

    if "axes" in what:
        _wrap_axes(darsia)


def _wrap_axes(darsia):
    from checks.c20 import record_axes_call
    orig = darsia.interpret_indexing

    def wrapped(*a, **k):
        try:
            res = orig(*a, **k)
        except Exception as ex:  # noqa
            ev = record_axes_call("interpret_indexing", a, k, None, ex)
            if ev is not None:
                _emit(ev, key=("axes", json.dumps(ev, sort_keys=True)))
            raise
        ev = record_axes_call("interpret_indexing", a, k, res, None)
        if ev is not None:
            _emit(ev, key=("axes", json.dumps(ev, sort_keys=True)))
        return res
    darsia.interpret_indexing = wrapped


def pytest_unconfigure(config):
    if _STATE["f"] is not None:
        _STATE["f"].close()
