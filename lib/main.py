import argparse
import importlib
import os
import sys
import traceback

from .core import Check, MachineryError


def main():
    ap = argparse.ArgumentParser()
    ap.add_argument("pid")
    ap.add_argument("--tier", default=os.environ.get("VERIF_TIER", "quick"), choices=["quick", "thorough"])
    ap.add_argument("--replay", default=None)
    a = ap.parse_args()
    seed = int(os.environ.get("VERIF_SEED", "0") or 0)
    try:
        mod = importlib.import_module("checks." + a.pid.lower())
    except ModuleNotFoundError:
        print(f"no check for {a.pid}")
        return 2
    ck = Check(a.pid, a.tier, seed, mod.LEVEL)
    try:
        mod.run(ck, replay=a.replay)
        return ck.finish()
    except MachineryError as e:
        print("MACHINERY-FAILURE:", e)
        return 2
    except (ImportError, SyntaxError):
        traceback.print_exc()
        print("MACHINERY-FAILURE: the library under check cannot be imported")
        return 2
    except Exception as ex:
        # An exception raised INSIDE the library while the driver performs a call that the property quantifies over (every
        # such call succeeds on a tree where the property holds) is a rejection of that call, not a failure of the machinery.
        tb = traceback.extract_tb(ex.__traceback__)
        lib_root = os.path.join(os.path.realpath(os.environ.get("DARSIA_REPO", "/repo")), "src", "darsia")
        lib_frames = [f for f in tb if os.path.realpath(f.filename).startswith(lib_root)]
        harness_frames = [f for f in tb if "/checks/" in f.filename]
        if lib_frames and harness_frames:
            traceback.print_exc()
            inner, outer = lib_frames[-1], harness_frames[-1]
            where = os.path.relpath(os.path.realpath(inner.filename), lib_root)
            ck.violation(f"{a.pid}:LibraryCallTotal:{type(ex).__name__}:{where}:{inner.name}",
                         f"{type(ex).__name__} raised in {where}:{inner.name} (line {inner.lineno}) during the driver's call at {os.path.basename(outer.filename)}:{outer.lineno}",
                         {"exception": repr(ex)[:300], "library_frame": f"{where}:{inner.lineno} {inner.name}", "driver_frame": f"{os.path.basename(outer.filename)}:{outer.lineno} {outer.line}",
                          "note": "the driver stopped at this call; later scenarios were not run"})
            ck.cov["rule"] = ck.cov.get("rule") or "run aborted by an exception inside the library"
            return ck.finish()
        traceback.print_exc()
        print("MACHINERY-FAILURE: unexpected exception")
        return 2


if __name__ == "__main__":
    sys.exit(main())
