import argparse
import importlib
import os
import sys
import traceback

from .core import Check, MachineryError


def main():
    ap = argparse.ArgumentParser()
    ap.add_argument("pid")
    ap.add_argument("--tier", default=os.environ.get("VERIF_TIER", "quick"), choices=["quick", "thorough"])
    ap.add_argument("--replay", default=None)
    a = ap.parse_args()
    seed = int(os.environ.get("VERIF_SEED", "0") or 0)
    try:
        mod = importlib.import_module("checks." + a.pid.lower())
    except ModuleNotFoundError:
        print(f"no check for {a.pid}")
        return 2
    ck = Check(a.pid, a.tier, seed, mod.LEVEL)
    try:
        mod.run(ck, replay=a.replay)
        return ck.finish()
    except MachineryError as e:
        print("MACHINERY-FAILURE:", e)
        return 2
    except Exception:
        traceback.print_exc()
        print("MACHINERY-FAILURE: unexpected exception")
        return 2


if __name__ == "__main__":
    sys.exit(main())
