"""One object driven along the histories of spec/FailedCalls.tla (good calls interleaved with rejected calls)."""
from lib.core import MachineryError


def histories(ck):
    """Histories of good and rejected calls enumerated by TLC; the non-atomic rules must be rejected (vacuity guard)."""
    ck.sany("FailedCalls", "Trace_FailedCalls")
    r = ck.model_check("FailedCalls", "FailedCalls_atomic.cfg", workers=1)
    for rule in ("halfupdate", "stickyflag"):
        rr = ck.tlc("FailedCalls", f"FailedCalls_{rule}.cfg", workers=1, expect_ok=False, label=f"failedcalls-{rule}")
        if "UseAfterFailureReturnsOwn" not in rr.violated:
            raise MachineryError(f"FailedCalls no longer rejects the rule {rule} (vacuity guard)")
    hs = sorted({tuple(str(x) for x in p[1]) for p in r.printed("HIST")})
    if not hs:
        raise MachineryError("FailedCalls emitted no history")
    return hs


def replay(hists, kind, make, use, misuse, same, tid_prefix):
    """make() -> fresh object;  use(obj) -> result of a good call;  misuse(obj) -> a call that is expected to raise;
    same(x, y) -> bool.  The expected result is the one of a fresh object that never saw a rejected call."""
    expected = use(make())
    if not same(expected, use(make())):
        raise MachineryError(f"failed-call scenario {kind}: two fresh objects disagree")
    events = []
    for i, h in enumerate(hists):
        e = {"tid": f"{tid_prefix}:{i}", "op": "failedcalls", "kind": kind, "hist": list(h), "results": [], "rejected": [], "raised": 0}
        obj = make()
        for k in h:
            if k == "misuse":
                try:
                    misuse(obj)
                    e["rejected"].append(0)
                except Exception:  # noqa
                    e["rejected"].append(1)
            else:
                try:
                    e["results"].append("own" if same(use(obj), expected) else "foreign")
                except Exception as ex:  # noqa
                    e["raised"] = 1
                    e["error"] = repr(ex)[:200]
        if 0 in e["rejected"]:
            continue  # the call was accepted: not a failure history of this class (nothing to judge)
        events.append(e)
    return events


def judge(ck, pid, events):
    bad = ck.validate("Trace_FailedCalls", "Trace.cfg", events)
    for b in bad:
        e = b["event"]
        if b["clause"] == "HarnessScenario":
            raise MachineryError(f"failed-call scenario {e['kind']} is not a history of FailedCalls (the misuse did not raise, or malformed)")
        ck.violation(f"{pid}:{b['clause']}:failedcalls:{e['kind']}", f"{e['kind']} object used after a rejected call violates {b['clause']}",
                     {"kind": e["kind"], "history": e["hist"], "results": e["results"], "error": e.get("error")})
    return len(events)


def run(ck, pid, specs):
    """specs: list of (hists, kind, make, use, misuse, same, tid_prefix)."""
    events = []
    for (hists, kind, make, use, misuse, same, tid) in specs:
        events += replay(hists, kind, make, use, misuse, same, tid)
    return judge(ck, pid, events)
