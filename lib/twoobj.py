"""Twin objects driven along the interleavings of spec/TwoObjects.tla (state shared between objects of one class)."""
import os
import pickle
import tempfile

from lib.core import MachineryError


def alone(make, use, o):
    """Result of configuration o made and used in a process forked from this one that has not yet touched the class."""
    fd, path = tempfile.mkstemp(prefix="twoobj-")
    os.close(fd)
    pid = os.fork()
    if pid == 0:
        code = 0
        try:
            with open(path, "wb") as f:
                pickle.dump(use(o, make(o)), f)
        except BaseException as ex:  # noqa
            code = 1
            try:
                with open(path + ".err", "w") as f:
                    f.write(repr(ex)[:300])
            except Exception:  # noqa
                pass
        os._exit(code)
    _, status = os.waitpid(pid, 0)
    try:
        if status != 0:
            why = ""
            if os.path.exists(path + ".err"):
                why = open(path + ".err").read()
                os.unlink(path + ".err")
            raise MachineryError(f"twin configuration {o} cannot be made and used on its own: {why}")
        with open(path, "rb") as f:
            return pickle.load(f)
    finally:
        os.unlink(path)


def histories(ck):
    """Interleavings of two life cycles enumerated by TLC; the sharing rules must be rejected (vacuity guard)."""
    ck.sany("TwoObjects", "Trace_TwoObjects")
    r = ck.model_check("TwoObjects", "TwoObjects_independent.cfg", workers=1)
    for rule in ("sharedmemo", "lastwins"):
        rr = ck.tlc("TwoObjects", f"TwoObjects_{rule}.cfg", workers=1, expect_ok=False, label=f"twoobjects-{rule}")
        if "UseReturnsOwn" not in rr.violated:
            raise MachineryError(f"TwoObjects no longer rejects the rule {rule} (vacuity guard)")
    hs = sorted({tuple((str(x[0]), str(x[1])) for x in p[1]) for p in r.printed("HIST")})
    if not hs:
        raise MachineryError("TwoObjects emitted no history")
    return hs


def replay(hists, kind, make, use, same, tid_prefix, expected=None):
    """make(o) -> object of configuration o in {"a", "b"};  use(o, obj) -> result;  same(x, y) -> bool.
    The expected results are those of each configuration made and used alone in a forked child process (call this before the
    driver has used the class in the parent, so that the children start from a process that has only imported the library)."""
    events = []
    # (expected: results from an oracle of the driver's own, for classes whose code cannot run in a forked child - numba/OpenMP)
    exp = expected or {o: alone(make, use, o) for o in ("a", "b")}
    distinct = int(not same(exp["a"], exp["b"]))
    for i, h in enumerate(hists):
        e = {"tid": f"{tid_prefix}:{i}", "op": "twoobj", "kind": kind, "hist": [list(s) for s in h], "results": [], "raised": 0, "distinct": distinct}
        objs = {}
        try:
            for (k, o) in h:
                if k == "make":
                    objs[o] = make(o)
                else:
                    r = use(o, objs[o])
                    e["results"].append("a" if same(r, exp["a"]) else ("b" if same(r, exp["b"]) else "neither"))
        except Exception as ex:  # noqa
            e["raised"] = 1
            e["error"] = repr(ex)[:200]
        events.append(e)
    return events


def judge(ck, pid, events):
    bad = ck.validate("Trace_TwoObjects", "Trace.cfg", events)
    for b in bad:
        e = b["event"]
        if b["clause"] == "HarnessScenario":
            raise MachineryError(f"twin scenario {e['kind']} is not a scenario of TwoObjects (twins not distinct or malformed history)")
        ck.violation(f"{pid}:{b['clause']}:twoobjects:{e['kind']}", f"twin {e['kind']} objects used alternately violate {b['clause']}",
                     {"kind": e["kind"], "history": e["hist"], "results": e["results"], "error": e.get("error")})
    return len(events)


def run(ck, pid, specs):
    """specs: list of (hists, kind, make, use, same, tid_prefix[, expected]).  The expected results of ALL kinds are computed
    first (forked children of a parent that has not yet used any of the classes), then every kind is replayed and judged."""
    full = []
    for sp in specs:
        hists, kind, make, use, same, tid = sp[:6]
        expected = sp[6] if len(sp) > 6 else None
        full.append((hists, kind, make, use, same, tid, expected or {o: alone(make, use, o) for o in ("a", "b")}))
    events = []
    for (hists, kind, make, use, same, tid, expected) in full:
        events += replay(hists, kind, make, use, same, tid, expected=expected)
    return judge(ck, pid, events)
