SPECIFICATION Spec
CONSTANTS MaxExt = 2
 Halo = 1
INVARIANT TableOk
INVARIANT OriginAtZero
INVARIANT UnitStep
INVARIANT InsideGivesVoxel
INVARIANT FloorOnNegatives
INVARIANT CentreRoundTrip
INVARIANT OppositeCorner
INVARIANT Emit
CHECK_DEADLOCK FALSE
