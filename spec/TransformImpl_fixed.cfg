SPECIFICATION Spec
CONSTANT Rule = "fixed"
INVARIANT InverseIsInverse
INVARIANT RotationOk
INVARIANT Emit
CHECK_DEADLOCK FALSE
