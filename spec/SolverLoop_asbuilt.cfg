SPECIFICATION Spec
CONSTANTS NumIter = 6
 MaxRuns = 2
 Rule = "asbuilt"
INVARIANT ConvergedOnlyIfCriteria
INVARIANT FaultFlagged
INVARIANT DistanceOfReturned
INVARIANT ReturnedIsLastValid
CHECK_DEADLOCK FALSE
