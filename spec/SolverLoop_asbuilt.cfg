SPECIFICATION Spec
CONSTANTS NumIter = 6
 Rule = "asbuilt"
INVARIANT ConvergedOnlyIfCriteria
INVARIANT FaultFlagged
INVARIANT DistanceOfReturned
INVARIANT ReturnedIsLastValid
CHECK_DEADLOCK FALSE
