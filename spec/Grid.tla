------------------------------- MODULE Grid -------------------------------
(* Tensor grids: cell and face numbering, connectivity (C07).              *)
(*                                                                         *)
(* A grid is given by its shape s (sequence of extents, 1..3 axes).        *)
(* Everything is defined from first principles:                            *)
(*   - a cell is a 0-based index tuple; its number is its Fortran rank;    *)
(*   - an inner face of axis d is a pair of cells differing by one along   *)
(*     axis d; faces of axis d are numbered after all faces of lower axes, *)
(*     by the Fortran rank of the lower cell in the face shape s - e_d.    *)
(* "Tables" is the record format in which both this specification and the  *)
(* implementation (darsia.Grid, logged by the harness) describe a grid.    *)
(* GridClauses(T) are the clauses of property C07 evaluated ON A TABLE, so *)
(* the same operators judge the specification's own tables (MC_Grid) and   *)
(* the tables recorded from the code (Trace_Grid).                         *)
EXTENDS Integers, Sequences, FiniteSets

RECURSIVE ProdSeq(_)
ProdSeq(s) == IF s = <<>> THEN 1 ELSE Head(s) * ProdSeq(Tail(s))

RECURSIVE Rank(_, _)
Rank(s, c) == IF s = <<>> THEN 0 ELSE Head(c) + Head(s) * Rank(Tail(s), Tail(c))

RECURSIVE Unrank(_, _)
Unrank(s, r) == IF s = <<>> THEN <<>>
                ELSE <<r % Head(s)>> \o Unrank(Tail(s), r \div Head(s))

RECURSIVE Pow2(_)
Pow2(n) == IF n = 0 THEN 1 ELSE 2 * Pow2(n - 1)

Axes(s) == 1..Len(s)
NumCells(s) == ProdSeq(s)
FaceShape(s, d) == [a \in Axes(s) |-> IF a = d THEN s[a] - 1 ELSE s[a]]
NumFacesAx(s, d) == ProdSeq(FaceShape(s, d))

RECURSIVE FaceOffset(_, _)
FaceOffset(s, d) == IF d = 1 THEN 0 ELSE FaceOffset(s, d - 1) + NumFacesAx(s, d - 1)
NumFaces(s) == FaceOffset(s, Len(s) + 1)

AxisOfFace(s, f) == CHOOSE d \in Axes(s) :
                       FaceOffset(s, d) <= f /\ f < FaceOffset(s, d) + NumFacesAx(s, d)
LowerCell(s, f) == LET d == AxisOfFace(s, f)
                   IN Unrank(FaceShape(s, d), f - FaceOffset(s, d))
FaceNum(s, d, c) == FaceOffset(s, d) + Rank(FaceShape(s, d), c)

\* face -> <<lower cell number, upper cell number>>  (sequence index f+1)
ConnSeq(s) == [i \in 1..NumFaces(s) |->
                 LET f == i - 1
                     d == AxisOfFace(s, f)
                     c == LowerCell(s, f)
                 IN <<Rank(s, c), Rank(s, [c EXCEPT ![d] = @ + 1])>>]

\* axis -> cell -> <<face below or -1, face above or -1>>
RevSeq(s) == [d \in Axes(s) |-> [i \in 1..NumCells(s) |->
                 LET c == Unrank(s, i - 1)
                 IN << IF c[d] > 0 THEN FaceNum(s, d, [c EXCEPT ![d] = @ - 1]) ELSE -1,
                       IF c[d] < s[d] - 1 THEN FaceNum(s, d, c) ELSE -1 >>]]

FacesSeq(s) == [d \in Axes(s) |-> [i \in 1..NumFacesAx(s, d) |-> FaceOffset(s, d) + i - 1]]

\* A face of axis d is "interior" iff its lower cell is away from the grid
\* boundary in every tangential axis (the as-built notion; C07 only demands
\* that interior and exterior partition the faces, which GridClauses checks).
IsInteriorFace(s, f) == LET d == AxisOfFace(s, f)
                            c == LowerCell(s, f)
                        IN IF Len(s) = 1 THEN c[1] > 0 /\ c[1] < s[1] - 2
                           ELSE \A a \in Axes(s) \ {d} : c[a] > 0 /\ c[a] < s[a] - 1

SetToSortedSeq(S) == LET RECURSIVE F(_)
                         F(T) == IF T = {} THEN <<>>
                                 ELSE LET m == CHOOSE x \in T : \A y \in T : x <= y
                                      IN <<m>> \o F(T \ {m})
                     IN F(S)

\* Reference-cell corners (matrix indexing), as documented in grid.py.
CornersSeq(n) ==
  CASE n = 1 -> << <<0>>, <<1>> >>
    [] n = 2 -> << <<0,0>>, <<1,0>>, <<1,1>>, <<0,1>> >>
    [] n = 3 -> << <<0,0,0>>, <<1,0,0>>, <<1,1,0>>, <<0,1,0>>,
                   <<0,0,1>>, <<1,0,1>>, <<1,1,1>>, <<0,1,1>> >>

\* corner indices (0-based) lying on the face of axis d: side 1 = in the
\* lower cell (coordinate 1 along d), side 2 = in the upper cell (coordinate 0)
CornerIdx(n, d, side) == SetToSortedSeq({k - 1 : k \in {k \in 1..Pow2(n) :
                              CornersSeq(n)[k][d] = (IF side = 1 THEN 1 ELSE 0)}})

CellsSeq(s) == [i \in 1..NumCells(s) |-> Unrank(s, i - 1) \o <<i - 1>>]

SpecTables(s) ==
  [ shape    |-> s,
    cells    |-> CellsSeq(s),
    nfpa     |-> [d \in Axes(s) |-> NumFacesAx(s, d)],
    faces    |-> FacesSeq(s),
    conn     |-> ConnSeq(s),
    rev      |-> RevSeq(s),
    interior |-> [d \in Axes(s) |-> SetToSortedSeq({f \in 0..NumFaces(s)-1 :
                        AxisOfFace(s, f) = d /\ IsInteriorFace(s, f)})],
    exterior |-> [d \in Axes(s) |-> SetToSortedSeq({f \in 0..NumFaces(s)-1 :
                        AxisOfFace(s, f) = d /\ ~IsInteriorFace(s, f)})],
    corners  |-> CornersSeq(Len(s)),
    cci      |-> [i \in 1..NumFaces(s) |-> LET d == AxisOfFace(s, i - 1)
                     IN << CornerIdx(Len(s), d, 1), CornerIdx(Len(s), d, 2) >>],
    nf |-> NumFaces(s), nc |-> NumCells(s), fshape |-> [d \in Axes(s) |-> FaceShape(s, d)], fidx_ok |-> 1, kinds |-> "iiii" ]

-----------------------------------------------------------------------------
(* The clauses of C07, evaluated on a table T.                             *)

Range(q) == {q[i] : i \in DOMAIN q}
NoDup(q) == Cardinality(Range(q)) = Len(q)

\* cell number -> index tuple, taken from the table's own cell numbering
TupOf(T) == LET n == Len(T.shape)
                S == {<<e[n + 1], SubSeq(e, 1, n)>> : e \in Range(T.cells)}
            IN [k \in {p[1] : p \in S} |-> (CHOOSE p \in S : p[1] = k)[2]]

CellsWellNumbered(T) ==
  /\ Len(T.cells) = NumCells(T.shape)
  /\ {e[Len(T.shape) + 1] : e \in Range(T.cells)} = 0..NumCells(T.shape) - 1
  /\ {SubSeq(e, 1, Len(T.shape)) : e \in Range(T.cells)}
        = {Unrank(T.shape, r) : r \in 0..NumCells(T.shape) - 1}

FaceCounts(T) ==
  /\ T.nf = NumFaces(T.shape) /\ T.nc = NumCells(T.shape)
  /\ T.fshape = [d \in Axes(T.shape) |-> FaceShape(T.shape, d)]
  /\ T.fidx_ok = 1                       \* array-shaped face numbering = the per-axis face lists, first axis fastest
  /\ T.kinds = "iiii"                    \* index tables are signed integer arrays (-1 marks "no face")
  /\ Len(T.nfpa) = Len(T.shape)
  /\ \A d \in Axes(T.shape) : T.nfpa[d] = NumFacesAx(T.shape, d)
  /\ \A d \in Axes(T.shape) : Len(T.faces[d]) = T.nfpa[d]
  /\ Len(T.conn) = NumFaces(T.shape)

FacesNumberedOnce(T) ==
  /\ \A d \in Axes(T.shape) : NoDup(T.faces[d])
  /\ \A d, e \in Axes(T.shape) : d # e => Range(T.faces[d]) \cap Range(T.faces[e]) = {}
  /\ UNION {Range(T.faces[d]) : d \in Axes(T.shape)} = 0..NumFaces(T.shape) - 1
  /\ NoDup(T.conn)            \* no two faces join the same ordered pair

FacesJoinNeighbours(T) ==
  LET tup == TupOf(T) IN
  \A d \in Axes(T.shape) : \A f \in Range(T.faces[d]) :
     LET a == T.conn[f + 1][1]
         b == T.conn[f + 1][2]
     IN /\ a \in DOMAIN tup /\ b \in DOMAIN tup
        /\ a < b
        /\ tup[b] = [tup[a] EXCEPT ![d] = @ + 1]

RevIsInverse(T) ==
  /\ Len(T.rev) = Len(T.shape)
  /\ \A d \in Axes(T.shape) :
       /\ Len(T.rev[d]) = NumCells(T.shape)
       /\ \A f \in Range(T.faces[d]) :
            /\ T.rev[d][T.conn[f + 1][1] + 1][2] = f
            /\ T.rev[d][T.conn[f + 1][2] + 1][1] = f
       /\ \A n \in 0..NumCells(T.shape) - 1 :
            /\ T.rev[d][n + 1][1] # -1 =>
                 T.rev[d][n + 1][1] \in Range(T.faces[d]) /\ T.conn[T.rev[d][n + 1][1] + 1][2] = n
            /\ T.rev[d][n + 1][2] # -1 =>
                 T.rev[d][n + 1][2] \in Range(T.faces[d]) /\ T.conn[T.rev[d][n + 1][2] + 1][1] = n

NoFaceOnlyOnBoundary(T) ==
  LET tup == TupOf(T) IN
  \A d \in Axes(T.shape) : \A n \in 0..NumCells(T.shape) - 1 :
     /\ (T.rev[d][n + 1][1] = -1) <=> (tup[n][d] = 0)
     /\ (T.rev[d][n + 1][2] = -1) <=> (tup[n][d] = T.shape[d] - 1)

InteriorExteriorPartition(T) ==
  \A d \in Axes(T.shape) :
     /\ Range(T.interior[d]) \cup Range(T.exterior[d]) = Range(T.faces[d])
     /\ Range(T.interior[d]) \cap Range(T.exterior[d]) = {}
     /\ NoDup(T.interior[d]) /\ NoDup(T.exterior[d])

CornersOnFace(T) ==
  LET n == Len(T.shape) IN
  /\ Len(T.corners) = Pow2(n)
  /\ Range(T.corners) = Range(CornersSeq(n))      \* the 0/1 vertices, each once
  /\ Len(T.cci) = NumFaces(T.shape)
  /\ \A d \in Axes(T.shape) : \A f \in Range(T.faces[d]) :
       /\ Len(T.cci[f + 1][1]) = Pow2(n - 1) /\ NoDup(T.cci[f + 1][1])
       /\ Len(T.cci[f + 1][2]) = Pow2(n - 1) /\ NoDup(T.cci[f + 1][2])
       /\ \A k \in Range(T.cci[f + 1][1]) : T.corners[k + 1][d] = 1
       /\ \A k \in Range(T.cci[f + 1][2]) : T.corners[k + 1][d] = 0

\* every index stored in the tables denotes an existing cell / face / corner: the clauses below index the tables with
\* these values, so they are only evaluated on tables in range (a table out of range fails this clause by name)
TablesInRange(T) ==
  LET n == Len(T.shape) nf == NumFaces(T.shape) nc == NumCells(T.shape) IN
  /\ Len(T.faces) = n /\ Len(T.interior) = n /\ Len(T.exterior) = n /\ Len(T.rev) = n
  /\ CellsWellNumbered(T) /\ FaceCounts(T)
  /\ \A d \in 1..n : /\ Range(T.faces[d]) \subseteq 0..nf - 1
                      /\ Range(T.interior[d]) \subseteq 0..nf - 1 /\ Range(T.exterior[d]) \subseteq 0..nf - 1
                      /\ Len(T.rev[d]) = nc
                      /\ \A c \in 1..nc : Len(T.rev[d][c]) = 2 /\ T.rev[d][c][1] \in -1..nf - 1 /\ T.rev[d][c][2] \in -1..nf - 1
  /\ \A f \in 1..Len(T.conn) : Len(T.conn[f]) = 2 /\ T.conn[f][1] \in 0..nc - 1 /\ T.conn[f][2] \in 0..nc - 1
  /\ Len(T.corners) = Pow2(n) /\ \A k \in 1..Len(T.corners) : Len(T.corners[k]) = n
  /\ Len(T.cci) = nf
  /\ \A f \in 1..Len(T.cci) : Len(T.cci[f]) = 2 /\ \A sd \in 1..2 : Range(T.cci[f][sd]) \subseteq 0..Pow2(n) - 1

\* ... with the meaning the names have in the code ("identify all faces on the outer boundary of the grid"): in two and
\* three dimensions a face is exterior iff one of its two cells lies on the outer boundary in a tangential direction, and
\* interior otherwise (in 1-D the as-built split is a convention of its own: drift only)
ExteriorFacesTouchBoundary(T) ==
  Len(T.shape) = 1 \/ \A d \in Axes(T.shape) : Range(T.interior[d]) = {f \in Range(T.faces[d]) : IsInteriorFace(T.shape, f)}

GridClauses(T) ==
  << <<"TablesInRange", TablesInRange(T)>>,
     <<"CellsWellNumbered", CellsWellNumbered(T)>>,
     <<"FaceCounts", FaceCounts(T)>>,
     <<"FacesNumberedOnce", IF TablesInRange(T) THEN FacesNumberedOnce(T) ELSE TRUE>>,
     <<"FacesJoinNeighbours", IF TablesInRange(T) THEN FacesJoinNeighbours(T) ELSE TRUE>>,
     <<"RevIsInverse", IF TablesInRange(T) THEN RevIsInverse(T) ELSE TRUE>>,
     <<"NoFaceOnlyOnBoundary", IF TablesInRange(T) THEN NoFaceOnlyOnBoundary(T) ELSE TRUE>>,
     <<"InteriorExteriorPartition", IF TablesInRange(T) THEN InteriorExteriorPartition(T) ELSE TRUE>>,
     <<"ExteriorFacesTouchBoundary", IF TablesInRange(T) /\ FaceCounts(T) THEN ExteriorFacesTouchBoundary(T) ELSE TRUE>>,
     <<"CornersOnFace", IF TablesInRange(T) THEN CornersOnFace(T) ELSE TRUE>> >>

AllFail(cl) == {cl[i][1] : i \in {j \in DOMAIN cl : ~cl[j][2]}}
FirstFail(cl) == IF \A i \in DOMAIN cl : cl[i][2] THEN "ok"
                 ELSE cl[CHOOSE i \in DOMAIN cl : ~cl[i][2] /\ \A j \in 1..i-1 : cl[j][2]][1]

\* Convention equality (numbering as built); a mismatch with all clauses true is
\* reported as drift by the harness, never as a violation.
SameConvention(T) == /\ T.conn = ConnSeq(T.shape)
                     /\ T.rev = RevSeq(T.shape)
                     /\ T.faces = FacesSeq(T.shape)
                     /\ T.cells \in {CellsSeq(T.shape)} \/ Range(T.cells) = Range(CellsSeq(T.shape))
=============================================================================
