SPECIFICATION Spec
CONSTANTS Depth = 2
 Restart = 3
 MaxK = 9
INVARIANT UsedColumnsValid
CHECK_DEADLOCK FALSE
