--------------------------- MODULE MC_ColorBalance ---------------------------
(* Every ordered pair / triple of stages drawn from a generating set of    *)
(* integer balances (diagonal, shear, permutation; affine ones with a      *)
(* translation): accumulated = sequential, for all probe vectors.          *)
EXTENDS ColorBalance, TLC
CONSTANTS Rule, MaxLen
VARIABLE stages
Diag == << <<2, 0, 0>>, <<0, 1, 0>>, <<0, 0, -1>> >>
Shear == << <<1, 1, 0>>, <<0, 1, 0>>, <<0, 2, 1>> >>
Perm == << <<0, 1, 0>>, <<0, 0, 1>>, <<1, 0, 0>> >>
Gen == { [mode |-> "diagonal", A |-> Diag, b |-> Z3],
         [mode |-> "linear", A |-> Shear, b |-> Z3], [mode |-> "linear", A |-> Perm, b |-> Z3],
         [mode |-> "affine", A |-> Shear, b |-> <<1, 0, -1>>], [mode |-> "affine", A |-> Perm, b |-> <<0, 2, 1>>],
         [mode |-> "affine", A |-> I3, b |-> <<1, 1, 0>>],
         [mode |-> "reset", A |-> I3, b |-> Z3] }
Init == stages = <<>>
Next == Len(stages) < MaxLen /\ \E s \in Gen : stages' = Append(stages, s)
Spec == Init /\ [][Next]_stages
Probes == {<<1, 0, 0>>, <<0, 1, 0>>, <<0, 0, 1>>, <<1, 2, 3>>, <<0, 0, 0>>}
AccumulatedIsSequential == \A x \in Probes : Accumulated(Rule, stages, x) = Sequential(stages, x)
Emit == stages = <<>> \/ PrintT(<<"SCN", stages>>)
=============================================================================
