SPECIFICATION Spec
CONSTANTS MaxN = 6
 MaxM = 2
INVARIANT ZeroSelf
INVARIANT Symmetric
INVARIANT Scales
INVARIANT MomentBound
INVARIANT MidpointBelowCorner
INVARIANT Emit
CHECK_DEADLOCK FALSE
