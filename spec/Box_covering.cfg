SPECIFICATION Spec
CONSTANTS N = 3
 Rule = "covering"
 MaxPts = 2
INVARIANT Covers
INVARIANT InverseRoundTrip
CHECK_DEADLOCK FALSE
