SPECIFICATION Spec
CONSTANTS Rule = "independent"
 MaxLen = 5
INVARIANT UseReturnsOwn
INVARIANT Emit
CHECK_DEADLOCK FALSE
