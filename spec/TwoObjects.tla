----------------------------- MODULE TwoObjects -----------------------------
(* Two objects of one class live in one process.  They agree in the part of *)
(* their configuration a memo shared by the class / module could be keyed   *)
(* by (shape, counts, names) and differ in the rest (voxel sizes, origin,   *)
(* parameters).  Whatever the order in which they are constructed and used, *)
(* every use of an object returns the result of ITS configuration           *)
(* (UseReturnsOwn) - the statement "for every history" of the listed        *)
(* properties, read across objects instead of along one object.             *)
(*   Rule "independent" : every object computes from its own configuration  *)
(*   Rule "sharedmemo"  : (the shape of a class attribute, a module-level   *)
(*                        cache with an incomplete key, a mutable default   *)
(*                        argument) what the FIRST construction / first use *)
(*                        computed serves every later object                *)
(*   Rule "lastwins"    : (a class attribute overwritten by every           *)
(*                        constructor) the object constructed LAST defines  *)
(*                        what every object uses                            *)
(* TLC enumerates the interleavings of the two life cycles; the drivers     *)
(* instantiate "a" and "b" by twin objects of their class (C01 coordinate   *)
(* systems, C06 operators of two grids, C19 patch layouts, ...) and replay  *)
(* every interleaving against the real code.                                *)
EXTENDS Integers, Sequences, TLC
CONSTANTS Rule, MaxLen
VARIABLES made, memo, hist, results
vars == <<made, memo, hist, results>>
Objs == {"a", "b"}
Init == made = {} /\ memo = "none" /\ hist = <<>> /\ results = <<>>
Make(o) ==
  /\ o \notin made /\ Len(hist) < MaxLen
  /\ made' = made \cup {o}
  /\ memo' = CASE Rule = "sharedmemo" /\ memo = "none" -> o
               [] Rule = "lastwins" -> o
               [] OTHER -> memo
  /\ hist' = Append(hist, <<"make", o>>)
  /\ UNCHANGED results
Use(o) ==
  /\ o \in made /\ Len(hist) < MaxLen
  /\ hist' = Append(hist, <<"use", o>>)
  /\ results' = Append(results, <<o, IF Rule = "independent" THEN o ELSE memo>>)
  /\ UNCHANGED <<made, memo>>
Next == \E o \in Objs : Make(o) \/ Use(o)
Spec == Init /\ [][Next]_vars
UseReturnsOwn == \A i \in 1..Len(results) : results[i][1] = results[i][2]
\* complete histories only: both objects made and the last step is a use
Emit == ~(made = Objs /\ Len(hist) > 0 /\ hist[Len(hist)][1] = "use") \/ PrintT(<<"HIST", hist>>)
=============================================================================
