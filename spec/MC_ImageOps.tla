---------------------------- MODULE MC_ImageOps ----------------------------
(* Programs of extraction steps over a small root image: TLC enumerates    *)
(* them (exhaustively to MaxLen, or by simulation for longer ones), checks *)
(* structural invariants of the state and emits each program for replay.   *)
EXTENDS ImageOps, TLC
CONSTANTS N1, N2, N3, RootT, MaxLen
RootShape == IF N3 = 0 THEN <<N1, N2>> ELSE <<N1, N2, N3>>
VARIABLES st, prog
vars == <<st, prog>>
R == [shape |-> RootShape, T |-> RootT, comps |-> 0, timekind |-> "times", dtype |-> "float64"]
Init == st = InitState(R) /\ prog = <<>>
Rois(s) == LET n == Len(s.box)
               Ax(a) == {<<x, y>> \in (-1..Extent(s, a)) \X (0..Extent(s, a) + 1) : x < y}
           IN IF n = 2 THEN {<<p, q>> : p \in Ax(1), q \in Ax(2)}
              ELSE {<<p, q, w>> : p \in Ax(1), q \in Ax(2), w \in Ax(3)}
Sub(form) == \E roi \in Rois(st) :
                /\ SubEnabled(st, roi)
                /\ (form = "slices" => \A a \in 1..Len(roi) : roi[a][1] >= 0)
                /\ st' = SubPost(st, roi)
                /\ prog' = Append(prog, [op |-> "sub", form |-> form, roi |-> roi])
TSlice == \E i \in 0..Len(st.tsel) - 1 : TSliceEnabled(st, i) /\ st' = TSlicePost(st, i)
                /\ prog' = Append(prog, [op |-> "tslice", i |-> i])
TInt == \E a \in 0..Len(st.tsel) - 1 : \E b \in 1..Len(st.tsel) + 1 :
                /\ TIntEnabled(st, a, b) /\ st' = TIntPost(st, a, b)
                /\ prog' = Append(prog, [op |-> "tint", a |-> a, b |-> b])
Next == Len(prog) < MaxLen /\ (Sub("slices") \/ Sub("voxels") \/ Sub("coords") \/ TSlice \/ TInt)
Spec == Init /\ [][Next]_vars

BoxInsideRoot == \A a \in 1..Len(st.box) : 0 <= st.box[a][1] /\ st.box[a][1] < st.box[a][2] /\ st.box[a][2] <= RootShape[a]
TimesInsideRoot == /\ Len(st.tsel) >= (IF RootT > 0 THEN 1 ELSE 0)
                   /\ \A i \in 1..Len(st.tsel) : st.tsel[i] \in 0..RootT - 1
                   /\ \A i \in 1..Len(st.tsel) - 1 : st.tsel[i] < st.tsel[i + 1]
                   /\ (~st.ser /\ RootT > 0 => Len(st.tsel) = 1)
\* nesting: a further extraction is the extraction of the composed box from the root
Nesting == [][\A a \in 1..Len(st.box) : st'.box[a][1] >= st.box[a][1] /\ st'.box[a][2] <= st.box[a][2]]_vars
TagsAreRestriction == LET c == Child(R, st) IN
   /\ Len(c.tags) = ProdI(c.shape)
   /\ \A k \in 1..Len(c.tags) : c.tags[k] \in 0..ProdI(RootFull(R)) - 1
   /\ \A k, m \in 1..Len(c.tags) : k # m => c.tags[k] # c.tags[m]
Emit == prog = <<>> \/ PrintT(<<"PROG", prog>>)
=============================================================================
