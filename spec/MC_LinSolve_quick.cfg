SPECIFICATION Spec
CONSTANTS Max1 = 6
 Max2 = 4
 Max3 = 3
 MaxLen = 4
INVARIANT ReuseIsSound
INVARIANT PatternTheorem
INVARIANT Emit
INVARIANT EmitHist
CHECK_DEADLOCK FALSE
