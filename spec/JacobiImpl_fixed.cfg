SPECIFICATION Spec
CONSTANTS Rule = "fixed"
 MaxLen = 4
INVARIANT DependsOnlyOnArguments
INVARIANT Emit
CHECK_DEADLOCK FALSE
