------------------------------ MODULE MC_Axes ------------------------------
(* The finite convention space of C20: dims 1..3, shapes up to MaxExt.     *)
(* The specification's own table must satisfy every clause the helpers are *)
(* judged by, and the layout map must be a bijection for every shape.      *)
EXTENDS Axes, TLC
CONSTANT MaxExt
VARIABLES n, shape
Init == n = 1 /\ shape = <<1>>
Next == \/ \E m \in 1..n : shape[m] < MaxExt /\ shape' = [shape EXCEPT ![m] = @ + 1] /\ n' = n
        \/ n < 3 /\ shape = [m \in 1..n |-> 1] /\ n' = n + 1 /\ shape' = [m \in 1..n+1 |-> 1]
Spec == Init /\ [][Next]_<<n, shape>>
SpecCoherent == TableCoherent(n) /\ FirstFailing(AxesClauses(SpecAxes(n))) = "ok"
LayoutOk == LayoutIsBijection(n, shape)
Emit == PrintT(<<"SCN", shape, [m \in 1..n |-> <<CartOf(n, m), Sign(n, m)>>]>>)
=============================================================================
