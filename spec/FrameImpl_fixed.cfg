SPECIFICATION Spec
CONSTANTS Rule = "fixed"
 MaxLen = 4
 MaxObj = 5
INVARIANT NoStepChangesAnotherObject
INVARIANT Emit
CHECK_DEADLOCK FALSE
