---------------------------- MODULE MC_Corrections ----------------------------
(* Every (input kind, overwrite, correction flags): the workflow satisfies  *)
(* the contract exactly when no argument-mutating correct_array meets the   *)
(* per-slice branch without overwrite (the design hazard the harness looks  *)
(* for in the real classes).                                                *)
EXTENDS Corrections
VARIABLES kind, overwrite, mutates, hook
vars == <<kind, overwrite, mutates, hook>>
Init == kind \in Kinds /\ overwrite \in BOOLEAN /\ mutates \in BOOLEAN /\ hook \in BOOLEAN
Next == UNCHANGED vars
Spec == Init /\ [][Next]_vars
Hazard == kind = "series" /\ ~hook /\ ~overwrite /\ mutates
ContractIffNoHazard == ContractHolds(kind, overwrite, mutates, hook) <=> ~Hazard
Emit == PrintT(<<"SCN", kind, overwrite>>)
=============================================================================
