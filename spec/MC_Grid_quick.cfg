SPECIFICATION Spec
CONSTANTS Max1 = 6
 Max2 = 4
 Max3 = 3
INVARIANT ClausesHold
INVARIANT FaceNumBijection
INVARIANT RankUnrank
INVARIANT Emit
CHECK_DEADLOCK FALSE
