------------------------------- MODULE Session -------------------------------
(* Whole-library sessions: a pool of images on which operations of several *)
(* modules act (extraction, time bookkeeping, assembly, arithmetic,        *)
(* resampling, reduction).  The abstract state of an image is              *)
(*   [dim, series, tnum, comps, dates, times, ref]                         *)
(* with dates / times as sequences of integer seconds (<<>> when absent),  *)
(* ref the reference date (-1 when absent).  Every operation has a         *)
(* specified effect on that abstract state; after every recorded operation *)
(* the real result must have the specified abstract state AND a            *)
(* well-formed metadata record (cross-cutting invariant, all operands).    *)
EXTENDS Integers, Sequences, FiniteSets, TLC

NoneT == -1
\* ---- well-formedness of a projected metadata record p (logged from the real object)
WellFormed(p) ==
  /\ p.ndim = p.dim + p.series + p.rangedim
  /\ Len(p.dimensions) = p.dim /\ Len(p.origin) = p.dim
  /\ \A a \in 1..p.dim : p.dimensions[a] > 0
  /\ p.indexing = p.dim                                       \* "i", "ij", "ijk" logged as its length
  /\ p.series = 1 => /\ p.timelist = 1 /\ p.datelist = 1
                     /\ Len(p.times) = p.tnum /\ Len(p.dates) = p.tnum
                     /\ p.tnum = p.shape[p.dim + 1]
  /\ p.series = 0 => p.timelist = 0 /\ p.datelist = 0 /\ p.tnum = 1
  /\ p.scalar = 1 <=> p.rangedim = 0
  /\ \A a \in 1..p.dim : p.vsizeok[a] = 1                      \* voxel_size * shape = dimensions

\* ---- abstract effects
TimesFromDates(D, R) == [i \in 1..Len(D) |-> D[i] - R]
Abstract(p) == [dim |-> p.dim, series |-> p.series, tnum |-> p.tnum, scalar |-> p.scalar, times |-> p.times, dates |-> p.dates, ref |-> p.ref]

Effect(op, a, arg) ==      \* a = abstract state of the receiver before the call; arg = operation arguments
  CASE op = "time_slice"    -> [a EXCEPT !.series = 0, !.tnum = 1, !.times = <<a.times[arg.i + 1]>>, !.dates = <<a.dates[arg.i + 1]>>]
    [] op = "time_interval" -> [a EXCEPT !.tnum = arg.hi - arg.lo, !.times = SubSeq(a.times, arg.lo + 1, arg.hi), !.dates = SubSeq(a.dates, arg.lo + 1, arg.hi)]
    [] op \in {"subregion", "copy", "add", "mul", "astype", "refine", "coarsen", "resize", "weight", "reset_origin"} -> a
    [] op = "reduce_axis"   -> [a EXCEPT !.dim = a.dim - 1]
    [] op = "extrude"       -> [a EXCEPT !.dim = a.dim + 1]
    [] op = "set_time"      -> [a EXCEPT !.times = arg.times]
    [] op = "update_reference_float" -> [a EXCEPT !.ref = a.ref + arg.shift, !.times = [i \in 1..Len(a.dates) |-> a.dates[i] - (a.ref + arg.shift)]]
    [] op = "reset_reference" -> IF \A i \in 1..Len(a.dates) : a.dates[i] # NoneT
                                 THEN [a EXCEPT !.ref = a.dates[1], !.times = [i \in 1..Len(a.dates) |-> a.dates[i] - a.dates[1]]]
                                 ELSE [a EXCEPT !.times = [i \in 1..Len(a.times) |-> a.times[i] - a.times[1]]]
    [] op = "append"        -> [a EXCEPT !.series = 1, !.tnum = a.tnum + arg.other.tnum,
                                         !.dates = a.dates \o arg.other.dates,
                                         !.times = IF arg.expect_times = 1 THEN arg.times ELSE [i \in 1..a.tnum + arg.other.tnum |-> NoneT]]

Verdict(e) ==
  (IF e.raised = 1 THEN {"OperationTotal"} ELSE {})
  \cup (IF e.raised = 0 /\ ~WellFormed(e.result) THEN {"ResultMetadataWellFormed"} ELSE {})
  \cup (IF e.raised = 0 /\ \E i \in 1..Len(e.others) : ~WellFormed(e.others[i]) THEN {"OperandMetadataStaysWellFormed"} ELSE {})
  \cup (IF e.raised = 0 /\ Abstract(e.result) # Effect(e.op, e.before, e.arg) THEN {"SpecifiedEffect"} ELSE {})
=============================================================================
