--------------------------- MODULE MC_Persistence ---------------------------
(* Store model: every configuration saved under its own path and loaded      *)
(* again, in any interleaving of Save and Load steps, returns its record.    *)
EXTENDS Persistence
VARIABLES store, cfg, loaded
vars == <<store, cfg, loaded>>
Init == store = <<>> /\ cfg \in Configs /\ loaded = {}
Save == store = <<>> /\ store' = <<cfg>> /\ UNCHANGED <<cfg, loaded>>
Load == store # <<>> /\ loaded = {} /\ loaded' = {store[1]} /\ UNCHANGED <<store, cfg>>
Next == Save \/ Load
Spec == Init /\ [][Next]_vars
RoundTrip == loaded \subseteq {cfg}
Emit == store # <<>> \/ PrintT(<<"SCN", cfg>>)
EmitBytes == PrintT(<<"BYTES", ByteFormats>>)
=============================================================================
