SPECIFICATION Spec
INVARIANT ContractIffNoHazard
INVARIANT Emit
CHECK_DEADLOCK FALSE
