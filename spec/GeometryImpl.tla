---------------------------- MODULE GeometryImpl ----------------------------
(* Implementation-shaped model of Geometry.integrate's volume cache (C03). *)
(* Resolutions are abstract: each has a voxel volume in units of the       *)
(* finest one (coarser 16, native 4, finer 1, other-coarser 64).  The      *)
(* cached voxel volume is the one valid for resolution `cres`.             *)
(*  scalar volume, as built before the fix : cache rewritten only when the *)
(*                   data resolution differs from the native one           *)
(*  scalar volume, fixed                   : cache rewritten on every call *)
(*  array volume                           : rewritten when the data shape *)
(*                   differs from the cached array's shape                 *)
(* The property: the value returned for the constant field 1 equals the    *)
(* domain volume whatever was integrated before.                           *)
EXTENDS Integers, Sequences, TLC
CONSTANTS Rule, MaxLen              \* Rule \in {"scalar_asbuilt", "scalar_fixed", "array"}
VARIABLES cres, hist, last
vars == <<cres, hist, last>>
Res == {"native", "coarser", "finer", "other"}
Vol(r) == CASE r = "native" -> 4 [] r = "coarser" -> 16 [] r = "finer" -> 1 [] r = "other" -> 64
Domain == 64                         \* domain volume in finest units
Init == cres = "native" /\ hist = <<>> /\ last = Domain
NewCache(r) == CASE Rule = "scalar_asbuilt" -> (IF r # "native" THEN r ELSE cres)
                 [] Rule = "scalar_fixed"   -> r
                 [] Rule = "array"          -> (IF r # cres THEN r ELSE cres)
Integrate(r) == /\ Len(hist) < MaxLen
                /\ cres' = NewCache(r)
                /\ hist' = Append(hist, r)
                /\ last' = (Domain \div Vol(r)) * Vol(NewCache(r))   \* #voxels * cached volume
Next == \E r \in Res : Integrate(r)
Spec == Init /\ [][Next]_vars
HistoryIndependent == last = Domain
Emit == PrintT(<<"SCN", hist>>)
=============================================================================
