SPECIFICATION Spec
CONSTANT MaxExt = 2
INVARIANT Linear
INVARIANT UnitIsEffectiveVolume
INVARIANT FinerSame
INVARIANT CoarserSame
CHECK_DEADLOCK FALSE
