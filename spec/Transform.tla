------------------------------ MODULE Transform ------------------------------
(* Affine transformations on the exact subgroup (C09): rotations by        *)
(* multiples of 90 degrees as signed permutation matrices, integer         *)
(* translations, scalings 1, 2, 1/2; and the pull-back warp of a tagged    *)
(* array under an index map  w = P v + t  (v source index, w destination). *)
EXTENDS Integers, Sequences, FiniteSets

Dim(M) == Len(M)
Id(n) == [i \in 1..n |-> [j \in 1..n |-> IF i = j THEN 1 ELSE 0]]
RECURSIVE SumTo(_, _)
SumTo(n, f) == IF n = 0 THEN 0 ELSE f[n] + SumTo(n - 1, f)
MatMul(A, B) == [i \in 1..Len(A) |-> [j \in 1..Len(B[1]) |-> SumTo(Len(B), [k \in 1..Len(B) |-> A[i][k] * B[k][j]])]]
MatVec(A, x) == [i \in 1..Len(A) |-> SumTo(Len(x), [k \in 1..Len(x) |-> A[i][k] * x[k]])]
Transpose(A) == [i \in 1..Len(A[1]) |-> [j \in 1..Len(A) |-> A[j][i]]]
Det(A) == IF Len(A) = 2 THEN A[1][1] * A[2][2] - A[1][2] * A[2][1]
          ELSE   A[1][1] * (A[2][2] * A[3][3] - A[2][3] * A[3][2])
               - A[1][2] * (A[2][1] * A[3][3] - A[2][3] * A[3][1])
               + A[1][3] * (A[2][1] * A[3][2] - A[2][2] * A[3][1])
Cos4(k) == CASE k % 4 = 0 -> 1 [] k % 4 = 1 -> 0 [] k % 4 = 2 -> -1 [] k % 4 = 3 -> 0
Sin4(k) == CASE k % 4 = 0 -> 0 [] k % 4 = 1 -> 1 [] k % 4 = 2 -> 0 [] k % 4 = 3 -> -1
Rot2(k) == << <<Cos4(k), -Sin4(k)>>, <<Sin4(k), Cos4(k)>> >>
\* rotation by k quarter turns about coordinate axis a (right-handed)
Rot3(a, k) == CASE a = 1 -> << <<1, 0, 0>>, <<0, Cos4(k), -Sin4(k)>>, <<0, Sin4(k), Cos4(k)>> >>
                [] a = 2 -> << <<Cos4(k), 0, Sin4(k)>>, <<0, 1, 0>>, <<-Sin4(k), 0, Cos4(k)>> >>
                [] a = 3 -> << <<Cos4(k), -Sin4(k), 0>>, <<Sin4(k), Cos4(k), 0>>, <<0, 0, 1>> >>
VecAdd(a, b) == [i \in 1..Len(a) |-> a[i] + b[i]]
VecSub(a, b) == [i \in 1..Len(a) |-> a[i] - b[i]]
VecScale(c, a) == [i \in 1..Len(a) |-> c * a[i]]

OrthonormalDetOne(R) == MatMul(R, Transpose(R)) = Id(Len(R)) /\ Det(R) = 1

\* ---- judging a recorded affine map on the exact subgroup
\* e.R, e.Rinv integer matrices read from the object; e.t integer translation; scaling e.sn / e.sd;
\* e.pts integer points; e.fwd2 = 2 * T(x); e.back = Tinv(T(x)); e.back2 = T(Tinv(x))
AffineClauses(e) ==
  << <<"RotationOrthonormalDetOne", OrthonormalDetOne(e.R)>>,
     <<"InverseAfterForward", e.back = e.pts>>,
     <<"ForwardAfterInverse", e.back2 = e.pts>>,
     <<"TranslationAndScalingAct",
        \A i \in 1..Len(e.pts) :
           VecScale(e.sd, e.fwd2[i]) = VecAdd(VecScale(2 * e.sd, e.t), VecScale(2 * e.sn, MatVec(e.R, e.pts[i])))>> >>

\* ---- pull-back warp under the index map w = P v + t
RECURSIVE ProdT(_)
ProdT(s) == IF s = <<>> THEN 1 ELSE Head(s) * ProdT(Tail(s))
RECURSIVE CRankT(_, _)
CRankT(s, v) == IF s = <<>> THEN 0 ELSE Head(v) * ProdT(Tail(s)) + CRankT(Tail(s), Tail(v))
RECURSIVE CUnrankT(_, _)
CUnrankT(s, r) == IF s = <<>> THEN <<>> ELSE <<r \div ProdT(Tail(s))>> \o CUnrankT(Tail(s), r % ProdT(Tail(s)))
Inside(s, v) == \A a \in 1..Len(s) : 0 <= v[a] /\ v[a] < s[a]
\* expected destination values: e.data is the source array over sshape \o trailing in C order (trailing axes are carried along)
WarpExpected(e) ==
  LET n == Len(e.sshape)
      full == e.dshape \o e.trailing
      sfull == e.sshape \o e.trailing
      Pinv == Transpose(e.P)
  IN [k \in 1..ProdT(full) |->
        LET idx == CUnrankT(full, k - 1)
            w == SubSeq(idx, 1, n)
            v == MatVec(Pinv, VecSub(w, e.t))
        IN IF Inside(e.sshape, v) THEN e.data[1 + CRankT(sfull, v \o SubSeq(idx, n + 1, Len(idx)))] ELSE 0]
AllFailingT(cl) == {cl[i][1] : i \in {j \in DOMAIN cl : ~cl[j][2]}}
=============================================================================
