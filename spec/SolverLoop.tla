----------------------------- MODULE SolverLoop -----------------------------
(* Control flow of the Newton / Bregman solve loops of the Wasserstein     *)
(* solvers (C04): initial Darcy solve, up to N iterations each of which    *)
(* may fail in its inner linear solve (blanket except: break), the         *)
(* stopping test (only evaluated for iter > 1), and the status expression. *)
(* State record s:                                                         *)
(*   cur      version of the iterate held in the solution (0 = Darcy init, *)
(*            k = after k completed iterations)                            *)
(*   distOf   version the reported distance was computed from (-1 = the    *)
(*            constant 0 assigned before the loop)                         *)
(*   failedAt iteration whose inner solve failed (-1 = none)               *)
(*   byCrit   the loop was left through the stopping test                  *)
(*   postFailed  the step after the loop (Bregman: recovery of the pressure *)
(*            by one more linear solve) failed; the flux iterate is kept    *)
(* rule selects the status / initial-distance logic:                       *)
(*   "asbuilt" (before the fixes): converged == iter < N - 1,              *)
(*                                 distance initialised to 0               *)
(*   "fixed"  (current tree)     : converged == loop left through the test,*)
(*                                 distance initialised from the Darcy flux*)
(*   "postignored" (a plausible regression): as "fixed", but a failure of  *)
(*                                 the step after the loop leaves the status*)
(*   "flagkept" (a plausible regression): as "fixed", but the status is an  *)
(*                                 attribute of the solver OBJECT that only *)
(*                                 ever gets set: a later run on the same   *)
(*                                 object inherits it                       *)
(* A solver object is called again and again (run = 1, 2, ...): every run   *)
(* starts from LoopInit, nothing of the previous run is left.               *)
(* The transition functions are shared by the model-checking spec below    *)
(* and by Trace_SolverLoop, which steps them along recorded solver runs.   *)
EXTENDS Integers, TLC

LoopInit(rule) == [pc |-> "loop", iter |-> 0, cur |-> 0,
                   distOf |-> (IF rule = "asbuilt" THEN -1 ELSE 0),
                   failedAt |-> -1, byCrit |-> FALSE, converged |-> FALSE, postFailed |-> FALSE, run |-> 1]
\* a budget of no iterations at all: the run is over when it starts (the result is the initial guess, not converged)
LoopStart(rule, N) == IF N = 0 THEN [LoopInit(rule) EXCEPT !.pc = "done"] ELSE LoopInit(rule)
Status0(rule, N, exitIter, byCriteria) == IF rule = "asbuilt" THEN exitIter < N - 1 ELSE byCriteria
Status(s, rule, N, exitIter, byCriteria) == IF rule = "flagkept" THEN s.converged \/ byCriteria ELSE Status0(rule, N, exitIter, byCriteria)
IterEnabled(s, N) == s.pc = "loop" /\ s.iter < N
\* iteration s.iter completes; met = the stopping criteria hold for the new iterate
LoopIterOk(s, N, rule, met) ==
  LET t == [s EXCEPT !.cur = s.cur + 1, !.distOf = s.cur + 1] IN
  IF s.iter > 1 /\ met
    THEN [t EXCEPT !.pc = "done", !.byCrit = TRUE, !.converged = Status(s, rule, N, s.iter, TRUE)]
  ELSE IF s.iter = N - 1
    THEN [t EXCEPT !.pc = "done", !.converged = Status(s, rule, N, s.iter, FALSE)]
  ELSE [t EXCEPT !.iter = s.iter + 1]
\* the inner linear solve of iteration s.iter raises
LoopIterFail(s, N, rule) ==
  [s EXCEPT !.failedAt = s.iter, !.pc = "done", !.converged = Status(s, rule, N, s.iter, FALSE)]

\* the step after the loop (only solvers that have one) raises: the iterate is kept, the run is not converged.
\* The code runs that step after EVERY exit of the loop - also after an iteration failed (Bregman recovers the pressure
\* from whatever flux the loop left; that solve is singular where the flux vanishes) - so it is enabled then, too.
PostEnabled(s) == s.pc = "done" /\ ~s.postFailed
LoopPostFail(s, rule) == [s EXCEPT !.postFailed = TRUE, !.converged = IF rule = "postignored" THEN s.converged ELSE FALSE]

\* the same solver object is called once more
AgainEnabled(s, maxRuns) == s.pc = "done" /\ s.run < maxRuns
LoopAgain(s, rule, N) == [LoopStart(rule, N) EXCEPT !.run = s.run + 1, !.converged = IF rule = "flagkept" THEN s.converged ELSE FALSE]

ConvergedOnlyIfCriteriaS(s) == s.pc = "done" /\ s.converged => s.byCrit /\ s.failedAt = -1 /\ ~s.postFailed
FaultFlaggedS(s) == s.pc = "done" /\ (s.failedAt # -1 \/ s.postFailed) => ~s.converged
DistanceOfReturnedS(s) == s.pc = "done" => s.distOf = s.cur
ReturnedIsLastValidS(s) == s.pc = "done" /\ s.failedAt # -1 => s.cur = s.failedAt

-----------------------------------------------------------------------------
CONSTANTS NumIter, Rule, MaxRuns
VARIABLE s
Init == s = LoopStart(Rule, NumIter)
Next == \/ /\ IterEnabled(s, NumIter)
           /\ \/ \E met \in BOOLEAN : s' = LoopIterOk(s, NumIter, Rule, met)
              \/ s' = LoopIterFail(s, NumIter, Rule)
        \/ /\ PostEnabled(s) /\ s' = LoopPostFail(s, Rule)
        \/ /\ AgainEnabled(s, MaxRuns) /\ s' = LoopAgain(s, Rule, NumIter)
Spec == Init /\ [][Next]_s
ConvergedOnlyIfCriteria == ConvergedOnlyIfCriteriaS(s)
FaultFlagged == FaultFlaggedS(s)
DistanceOfReturned == DistanceOfReturnedS(s)
ReturnedIsLastValid == ReturnedIsLastValidS(s)
\* scenario emission: every terminal state = (number of completed iterations, failing iteration or -1)
Emit == s.pc # "done" \/ PrintT(<<"SCN", s.cur, s.failedAt, s.byCrit, s.postFailed>>)
=============================================================================
