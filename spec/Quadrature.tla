---------------------------- MODULE Quadrature ----------------------------
(* Quadrature rules on [-1,1]^d ("sym") and on the unit cell (C15).        *)
(* Reals are represented in fixed point with scale S = 10^4; products are  *)
(* rounded multiply-then-divide so that every intermediate stays below     *)
(* 2^31.  A rule is a record [dim, n, cell, pts, w] with pts a sequence of *)
(* points (sequences of scaled coordinates) and w the scaled weights.      *)
(* RuleClauses judges such a record - the specification's own tensor rules *)
(* (MC_Quadrature) and the tables logged from darsia.quadrature            *)
(* (Trace_Quadrature) alike.  Fixed point decides gross table errors; the  *)
(* 1e-12 exactness is an E4 observable computed in double precision by the *)
(* harness (field mom: sequence of <<k1..kd, exponent>>), related here.    *)
EXTENDS Integers, Sequences, FiniteSets

S == 10000
Tol == 100                      \* 1e-2 in fixed point (accumulated rounding)
MulS(a, b) == (a * b + S \div 2) \div S
RECURSIVE PowS(_, _)
PowS(x, k) == IF k = 0 THEN S ELSE MulS(PowS(x, k - 1), x)
Abs(x) == IF x < 0 THEN -x ELSE x
RECURSIVE SumSeq(_)
SumSeq(q) == IF q = <<>> THEN 0 ELSE Head(q) + SumSeq(Tail(q))
RECURSIVE ProdS(_)
ProdS(q) == IF q = <<>> THEN S ELSE MulS(Head(q), ProdS(Tail(q)))
RECURSIVE IPow(_, _)
IPow(b, k) == IF k = 0 THEN 1 ELSE b * IPow(b, k - 1)

\* reference Gauss-Legendre rules on [-1,1], n = 1..5 (scaled, rounded)
GLNodes(n) == CASE n = 1 -> <<0>>
                [] n = 2 -> <<-5774, 5774>>
                [] n = 3 -> <<-7746, 0, 7746>>
                [] n = 4 -> <<-8611, -3400, 3400, 8611>>
                [] n = 5 -> <<-9062, -5385, 0, 5385, 9062>>
GLWeights(n) == CASE n = 1 -> <<20000>>
                  [] n = 2 -> <<10000, 10000>>
                  [] n = 3 -> <<5556, 8889, 5556>>
                  [] n = 4 -> <<3479, 6521, 6521, 3479>>
                  [] n = 5 -> <<2369, 4786, 5689, 4786, 2369>>

RECURSIVE Tuples(_, _)
Tuples(n, d) == IF d = 0 THEN {<<>>} ELSE {<<i>> \o t : i \in 1..n, t \in Tuples(n, d - 1)}
SetToSeq(T) == LET RECURSIVE F(_)
                   F(U) == IF U = {} THEN <<>> ELSE LET x == CHOOSE y \in U : TRUE IN <<x>> \o F(U \ {x})
               IN F(T)

\* the tensor rule the specification expects
RefRule(d, n, cell) ==
  LET idx == SetToSeq(Tuples(n, d))
      X(i) == IF cell = "sym" THEN GLNodes(n)[i] ELSE (GLNodes(n)[i] + S) \div 2
      W(i) == IF cell = "sym" THEN GLWeights(n)[i] ELSE GLWeights(n)[i] \div 2
  IN [dim |-> d, n |-> n, cell |-> cell,
      pts |-> [j \in 1..Len(idx) |-> [a \in 1..d |-> X(idx[j][a])]],
      w   |-> [j \in 1..Len(idx) |-> ProdS([a \in 1..d |-> W(idx[j][a])])],
      mom |-> <<>>]

Measure(r) == IF r.cell = "sym" THEN IPow(2, r.dim) * S ELSE S
Moment(r, k) == SumSeq([j \in 1..Len(r.pts) |->
                   MulS(r.w[j], ProdS([a \in 1..r.dim |-> PowS(r.pts[j][a], k[a])]))])
ExpectedMoment(r, k) ==
  ProdS([a \in 1..r.dim |->
          IF r.cell = "sym" THEN (IF k[a] % 2 = 1 THEN 0 ELSE (2 * S) \div (k[a] + 1))
          ELSE S \div (k[a] + 1)])
Exponents(r) == [1..r.dim -> 0..(2 * r.n - 1)]
LowExponents(r) == [1..r.dim -> 0..1]

CountsMatch(r) == Len(r.w) = Len(r.pts) /\ Len(r.pts) = IPow(r.n, r.dim)
                  /\ \A j \in 1..Len(r.pts) : Len(r.pts[j]) = r.dim
Positive(r) == \A j \in 1..Len(r.w) : r.w[j] > 0
SumIsMeasure(r) == Abs(SumSeq(r.w) - Measure(r)) <= Tol
ExactLinear(r) == Len(r.w) = Len(r.pts) =>
   \A k \in {e \in LowExponents(r) : SumSeq([a \in 1..r.dim |-> e[a]]) <= 1} :
      Abs(Moment(r, k) - ExpectedMoment(r, k)) <= Tol
ExactNominal(r) == Len(r.w) = Len(r.pts) =>
   \A k \in Exponents(r) : Abs(Moment(r, k) - ExpectedMoment(r, k)) <= Tol
ExactDouble(r) == \A i \in 1..Len(r.mom) : r.mom[i][r.dim + 1] <= -12   \* E4 observable

RuleClauses(r) ==
  << <<"CountsMatch", CountsMatch(r)>>,
     <<"Positive", Positive(r)>>,
     <<"SumIsMeasure", SumIsMeasure(r)>>,
     <<"ExactLinear", ExactLinear(r)>>,
     <<"ExactNominal", ExactNominal(r)>>,
     <<"ExactDouble", ExactDouble(r)>> >>

\* corner rule: pts 0/1 integers, wi = weight * 2^dim as integer
CornerClauses(r) ==
  << <<"CountsMatch", Len(r.wi) = Len(r.pts) /\ Len(r.pts) = IPow(2, r.dim)>>,
     <<"CornersAreVertices", {r.pts[j] : j \in 1..Len(r.pts)} = [1..r.dim -> {0, 1}]>>,
     <<"Positive", \A j \in 1..Len(r.wi) : r.wi[j] > 0>>,
     <<"SumIsMeasure", SumSeq(r.wi) = IPow(2, r.dim)>>,
     <<"ExactMultilinear", Len(r.wi) = Len(r.pts) =>
          \A k \in [1..r.dim -> {0, 1}] :
             SumSeq([j \in 1..Len(r.pts) |-> r.wi[j] *
                        (IF \A a \in 1..r.dim : k[a] = 1 => r.pts[j][a] = 1 THEN 1 ELSE 0)])
               = IPow(2, r.dim - SumSeq([a \in 1..r.dim |-> k[a]]))>> >>

AllFailing(cl) == {cl[i][1] : i \in {j \in DOMAIN cl : ~cl[j][2]}}

\* same rule up to ordering and 3 units: drift information only
SameAsReference(r) ==
  LET ref == RefRule(r.dim, r.n, r.cell)
      Close(a, b) == \A i \in 1..Len(a) : Abs(a[i] - b[i]) <= 3
  IN /\ Len(r.pts) = Len(ref.pts) /\ Len(r.w) = Len(ref.w)
     /\ \A j \in 1..Len(r.pts) : \E i \in 1..Len(ref.pts) :
           Close(r.pts[j], ref.pts[i]) /\ Abs(r.w[j] - ref.w[i]) <= 3
=============================================================================
