----------------------------- MODULE JacobiImpl -----------------------------
(* Implementation-shaped model of the state that survives a call in the    *)
(* Jacobi solver and its users (C16).  A solver object carries parameters  *)
(* (set by update_params before each use) and, as built before the fix, a  *)
(* diagonal cached on its FIRST call and never refreshed.  Library         *)
(* functions that take `solver=Jacobi()` as a default argument all share   *)
(* one default instance per function.                                      *)
(*   Rule = "asbuilt": diagonal cached on first call                       *)
(*   Rule = "fixed"  : diagonal recomputed from the current parameters     *)
(* A call is the letter <<obj, mu, h>>.  The library refines a stateless   *)
(* function iff the diagonal used by every call is the one of ITS          *)
(* parameters: used = Diag(mu, h).                                         *)
EXTENDS Integers, Sequences, TLC
CONSTANTS Rule, MaxLen
VARIABLES cache, hist, used, want
vars == <<cache, hist, used, want>>
Objs == {"default", "explicit"}
Mus == {1, 10}              \* diffusion coefficient in tenths
Hs == {1, 2}
Diag(mu, h) == <<mu, h>>     \* the diagonal is an injective function of (mu, h): keep it symbolic
Init == cache = [o \in Objs |-> <<>>] /\ hist = <<>> /\ used = <<>> /\ want = <<>>
Call(o, mu, h) ==
  /\ Len(hist) < MaxLen
  /\ (o = "default" => h = 1)                   \* library functions call the solver with h = 1
  /\ LET d == IF Rule = "asbuilt" /\ cache[o] # <<>> THEN cache[o] ELSE Diag(mu, h)
     IN /\ cache' = [cache EXCEPT ![o] = d]
        /\ used' = d
        /\ want' = Diag(mu, h)
  /\ hist' = Append(hist, <<o, mu, h>>)
Next == \E o \in Objs, mu \in Mus, h \in Hs : Call(o, mu, h)
Spec == Init /\ [][Next]_vars
DependsOnlyOnArguments == used = want
Emit == hist = <<>> \/ PrintT(<<"SCN", hist>>)
=============================================================================
