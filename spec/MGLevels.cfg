SPECIFICATION Spec
CONSTANTS MaxN = 17
 MaxD = 2
INVARIANT CorrectionFitsLevel
INVARIANT CoarsestNonEmptyIff
INVARIANT Emit
CHECK_DEADLOCK FALSE
