----------------------------- MODULE MC_Resample -----------------------------
(* Theorems of the resampling operators on all small integer arrays:        *)
(* block sums keep the total, repetition multiplies it by the factor,       *)
(* repetition followed by block sum is k-fold identity, reduction keeps the *)
(* total, same-grid superposition is addition.                              *)
EXTENDS Resample, TLC
CONSTANT MaxExt
VARIABLES shape, data
vars == <<shape, data>>
Init == shape = <<1, 1>> /\ data = <<0>>
Next == \/ /\ \E a \in 1..2 : shape[a] < MaxExt /\ shape' = [shape EXCEPT ![a] = @ + 1]
           /\ data' = [i \in 1..ProdR(shape') |-> i % 4]
        \/ \E i \in 1..Len(data) : data[i] < 2 /\ ProdR(shape) <= 4 /\ data' = [data EXCEPT ![i] = @ + 1] /\ shape' = shape
Spec == Init /\ [][Next]_vars
K2 == <<2, 2>>
RepeatMultipliesSum == SumAll(Repeat(data, shape, K2)) = 4 * SumAll(data)
BlockSumKeepsTotal == (shape[1] % 2 = 0 /\ shape[2] % 2 = 0) => SumAll(BlockSum(data, shape, K2)) = SumAll(data)
RepeatThenBlockSum == BlockSum(Repeat(data, shape, K2), [i \in 1..2 |-> 2 * shape[i]], K2) = [i \in 1..Len(data) |-> 4 * data[i]]
ReduceKeepsTotal == \A ax \in 1..2 : SumAll(ReduceSum(data, shape, ax)) = SumAll(data)
SameGridSuperposeAdds == Canvas(shape, << [shape |-> shape, off |-> <<0, 0>>, data |-> data], [shape |-> shape, off |-> <<0, 0>>, data |-> data] >>)
                           = [i \in 1..Len(data) |-> 2 * data[i]]
Emit == PrintT(<<"SCN", shape>>)
=============================================================================
