--------------------------- MODULE Trace_Transform ---------------------------
EXTENDS Transform, TLC, Json, IOUtils
VARIABLE l
Lines == TLCGet(7)
Init == TLCSet(7, ndJsonDeserialize(IOEnv.TRACE_FILE)) /\ l = 1
Verdict(e) ==
  CASE e.op = "affine" -> AllFailingT(AffineClauses(e)) \cup (IF e.typed_ok = 0 THEN {"TypedCallReturnsDeclaredKinds"} ELSE {})
    [] e.op = "affine_generic" ->
         {c \in {"InverseAfterForward", "ForwardAfterInverse", "RotationOrthonormalDetOne"} :
            CASE c = "InverseAfterForward" -> e.rtexp > -9
              [] c = "ForwardAfterInverse" -> e.rt2exp > -9
              [] c = "RotationOrthonormalDetOne" -> e.orthoexp > -12 \/ e.detexp > -12}
    \* least-squares fit of one re-used object to exact images of its source points under a known map
    [] e.op = "fit" -> (IF e.raised = 1 THEN {"FitTotal"}
                        ELSE (IF e.resexp > -6 THEN {"FitReproducesPointPairs"} ELSE {})
                             \cup (IF e.isometry = 1 /\ e.scaling6 # 1000000 THEN {"IsometryHasUnitScaling"} ELSE {})
                             \cup (IF e.rtexp > -9 THEN {"InverseAfterForward"} ELSE {}))
    [] e.op = "warp" -> (IF e.raised = 1 THEN {"WarpTotal"}
                         ELSE IF e.res = WarpExpected(e) THEN {} ELSE {"WarpMovesVoxelsExactly"})
                        \cup (IF e.raised = 0 /\ e.second # "same" THEN {"WarpIndependentOfEarlierPayload"} ELSE {})
    [] e.op = "ctmeta" -> {c \in {"DestinationMetadata"} : e.origin # e.dorigin \/ e.dims # e.ddims \/ e.shape # e.dshape}
                          \cup {c \in {"ResultKeepsTheImagesOwnMetadata"} : e.own_metadata_kept = 0}
Judge(e) == LET f == Verdict(e) IN IF f = {} THEN TRUE ELSE PrintT(<<"BAD", e.tid, l, f>>)
Next == /\ l <= Len(Lines)
        /\ Judge(Lines[l])
        /\ l' = l + 1
        /\ (l' > Len(Lines) => PrintT(<<"DONE", Len(Lines)>>))
Spec == Init /\ [][Next]_l
=============================================================================
