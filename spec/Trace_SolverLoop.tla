-------------------------- MODULE Trace_SolverLoop --------------------------
(* Recorded runs of the real solvers (with an injected failure of the      *)
(* inner linear solve at a chosen iteration) stepped through SolverLoop:   *)
(* every event must be enabled in the model, the outcome reported by the   *)
(* code must equal the model's, and the quantised numeric observables of   *)
(* each iterate (E4: computed by the harness with its own incidence matrix *)
(* and cost routine) must satisfy the stated relations.                    *)
EXTENDS SolverLoop, Sequences, Json, IOUtils
VARIABLES l, m, N
Lines == TLCGet(7)
TInit == TLCSet(7, ndJsonDeserialize(IOEnv.TRACE_FILE)) /\ l = 1 /\ m = LoopInit("fixed") /\ N = 0 /\ s = LoopInit("fixed")
Bad(e, c) == PrintT(<<"BAD", e.tid, l, c>>)
\* mass balance holds to linear-solver precision: 1e-8, or two decades above the worst residual the inner solves achieved
MBOk(e) == e.mbexp <= -8 \/ e.mbexp <= e.linexp + 2
EndClauses(e) ==
  {c \in {"ConvergedOnlyIfCriteria", "FaultFlagged", "DistanceOfReturned", "ReturnedIsLastValid",
          "MassBalance", "PressurePinned", "CellFluxFromSolution", "TransportDensityFromSolution",
          "PressureIsSolutionBlock", "PressureOfReturnedFlux", "InnerSolvesSolveTheirSystems"} :
     CASE c = "ConvergedOnlyIfCriteria" -> ~(e.converged = 1 => e.critmet = 1 /\ m.failedAt = -1 /\ ~m.postFailed)
       [] c = "FaultFlagged" -> ~((m.failedAt # -1 \/ m.postFailed) => e.converged = 0)
       [] c = "DistanceOfReturned" -> ~(e.dexp <= -8)
       [] c = "ReturnedIsLastValid" -> ~(e.retver = m.cur)
       [] c = "MassBalance" -> ~MBOk(e)
       \* the "linear-solver precision" the mass balance is allowed is that of a solve: the direct back-end solves every inner
       \* system to round-off relative to that system's own right-hand side, whatever the magnitude of the data
       [] c = "InnerSolvesSolveTheirSystems" -> e.direct = 1 /\ e.linownexp > -8
       [] c = "PressurePinned" -> ~(e.pinexp <= -8)
       [] c = "PressureIsSolutionBlock" -> ~(e.pblkexp <= -12 \/ m.postFailed)
       [] c = "PressureOfReturnedFlux" -> ~(e.pnewtexp <= -6)       \* -17 = not applicable / not decidable
       [] c = "CellFluxFromSolution" -> ~(e.cfexp <= -10)
       [] c = "TransportDensityFromSolution" -> ~(e.tdexp <= -8)}
\* the solver object is used a second time (other masses), no fault: the first call's outputs stay the caller's, and the
\* second result is the one a fresh object returns (direct back-ends to round-off, iterative ones to their tolerance)
SecondClauses(e) ==
  (IF e.raised = 1 THEN {"SecondCallTotal"} ELSE {})
  \cup (IF e.raised = 0 /\ e.first_unchanged = 0 THEN {"ResultsNotOverwrittenByLaterCalls"} ELSE {})
  \cup (IF e.raised = 0 /\ e.freshexp > -6 THEN {"SecondCallEqualsFreshObject"} ELSE {})
  \cup (IF e.raised = 0 /\ e.conv_same = 0 THEN {"SecondCallEqualsFreshObject"} ELSE {})     \* also in its reported status
  \cup (IF e.raised = 0 /\ e.third_flagged = 0 THEN {"FaultFlagged"} ELSE {})                 \* a failing later run is not reported converged
Step(e) ==
  CASE e.op = "start" -> /\ m' = LoopStart("fixed", e.num_iter) /\ N' = e.num_iter
                         /\ (IF MBOk(e) THEN TRUE ELSE Bad(e, "MassBalance"))
    [] e.op = "iter" ->  /\ N' = N
                         /\ IF ~IterEnabled(m, N) THEN m' = m /\ Bad(e, "LoopStructure")
                            ELSE /\ m' = LoopIterOk(m, N, "fixed", e.last = 1 /\ e.critmet = 1)
                                 /\ (IF MBOk(e) THEN TRUE ELSE Bad(e, "MassBalance"))
    [] e.op = "fault" -> /\ N' = N
                         /\ IF ~IterEnabled(m, N) \/ e.i # m.iter THEN m' = m /\ Bad(e, "LoopStructure")
                            ELSE m' = LoopIterFail(m, N, "fixed")
    [] e.op = "postfault" -> /\ N' = N
                         /\ IF ~PostEnabled(m) THEN m' = m /\ Bad(e, "LoopStructure")
                            ELSE m' = LoopPostFail(m, "fixed")
    [] e.op = "second" -> /\ UNCHANGED <<m, N>>
                          /\ LET f == SecondClauses(e) IN IF f = {} THEN TRUE ELSE Bad(e, f)
    [] e.op = "end" ->   /\ UNCHANGED <<m, N>>
                         /\ IF e.raised = 1 THEN Bad(e, "SolveTotal")
                            ELSE IF m.pc # "done" /\ ~(e.earlyexit = 1) THEN Bad(e, "LoopStructure")
                            ELSE LET f == EndClauses(e) IN IF f = {} THEN TRUE ELSE Bad(e, f)
TNext == /\ l <= Len(Lines)
         /\ Step(Lines[l])
         /\ l' = l + 1 /\ UNCHANGED s
         /\ (l' > Len(Lines) => PrintT(<<"DONE", Len(Lines)>>))
TraceSpec == TInit /\ [][TNext]_<<l, m, N, s>>
=============================================================================
