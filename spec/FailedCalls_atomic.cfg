SPECIFICATION Spec
CONSTANTS Rule = "atomic"
 MaxLen = 4
INVARIANT UseAfterFailureReturnsOwn
INVARIANT Emit
CHECK_DEADLOCK FALSE
