---------------------------- MODULE TransformImpl ----------------------------
(* How set_parameters builds the 3-D rotation and its inverse (C09): both  *)
(* are accumulated axis by axis.  Rule "asbuilt" (before the fix) appends  *)
(* the inverse factors in the same order as the forward ones; "fixed"      *)
(* prepends them.  TLC checks Rinv * R = I over all 64 quarter-turn        *)
(* triples, and emits the triples as scenarios.                            *)
EXTENDS Transform, TLC
CONSTANT Rule
VARIABLES k1, k2, k3
Init == k1 = 0 /\ k2 = 0 /\ k3 = 0
Next == \/ k1 < 3 /\ k1' = k1 + 1 /\ UNCHANGED <<k2, k3>>
        \/ k2 < 3 /\ k2' = k2 + 1 /\ UNCHANGED <<k1, k3>>
        \/ k3 < 3 /\ k3' = k3 + 1 /\ UNCHANGED <<k1, k2>>
Spec == Init /\ [][Next]_<<k1, k2, k3>>
K == <<k1, k2, k3>>
R == MatMul(MatMul(Rot3(1, k1), Rot3(2, k2)), Rot3(3, k3))
RinvBuilt == IF Rule = "asbuilt"
             THEN MatMul(MatMul(Rot3(1, 4 - k1), Rot3(2, 4 - k2)), Rot3(3, 4 - k3))
             ELSE MatMul(MatMul(Rot3(3, 4 - k3), Rot3(2, 4 - k2)), Rot3(1, 4 - k1))
InverseIsInverse == MatMul(RinvBuilt, R) = Id(3) /\ MatMul(R, RinvBuilt) = Id(3)
RotationOk == OrthonormalDetOne(R)
Emit == PrintT(<<"SCN", K>>)
=============================================================================
