---------------------------- MODULE Trace_Session ----------------------------
EXTENDS Session, Json, IOUtils
VARIABLE l
Lines == TLCGet(7)
Init == TLCSet(7, ndJsonDeserialize(IOEnv.TRACE_FILE)) /\ l = 1
Judge(e) == LET f == Verdict(e) IN IF f = {} THEN TRUE ELSE PrintT(<<"BAD", e.tid, l, f>>)
Next == /\ l <= Len(Lines)
        /\ Judge(Lines[l])
        /\ l' = l + 1
        /\ (l' > Len(Lines) => PrintT(<<"DONE", Len(Lines)>>))
Spec == Init /\ [][Next]_l
=============================================================================
