SPECIFICATION Spec
CONSTANT MaxImgs = 3
CONSTANT MaxOff = 2
CONSTANT MaxLen = 3
CONSTANT Rule = "minmax"
INVARIANT BoundingIsOrderFree
INVARIANT InsideCanvas
INVARIANT CanvasSumIsSumOfSums
INVARIANT CanvasPermutationInvariant
INVARIANT ImplCanvasIsBounding
INVARIANT Emit
CHECK_DEADLOCK FALSE
