------------------------------ MODULE Geometry ------------------------------
(* Geometric integration (C03) on integer data.                            *)
(* A geometry has a native voxel shape n and an effective weight per       *)
(* native voxel (w: flattened C-order integers; 1 for a plain geometry;    *)
(* porosity * depth ... for the weighted kinds).  Values are measured in   *)
(* units of (native voxel volume / D), D a common multiple of all          *)
(* refinement factors, so every effective volume is an integer.            *)
(* Data may be given at a resolution r that is, per axis, an integer       *)
(* multiple or divisor of n; it is a sequence of slices (time steps and    *)
(* components), each flattened in C order.                                 *)
(* Integral(n, w, D, r, slice) is THE value integrate() must return for    *)
(* that slice - whatever was integrated before (history independence),     *)
(* and it is linear in the slice and invariant under replication of the    *)
(* slice to another resolution (theorems checked in MC_Geometry).          *)
EXTENDS Integers, Sequences, FiniteSets

RECURSIVE ProdQ(_)
ProdQ(s) == IF s = <<>> THEN 1 ELSE Head(s) * ProdQ(Tail(s))
RECURSIVE CRankG(_, _)
CRankG(s, v) == IF s = <<>> THEN 0 ELSE Head(v) * ProdQ(Tail(s)) + CRankG(Tail(s), Tail(v))
RECURSIVE CUnrank(_, _)
CUnrank(s, r) == IF s = <<>> THEN <<>>
                 ELSE <<r \div ProdQ(Tail(s))>> \o CUnrank(Tail(s), r % ProdQ(Tail(s)))
RECURSIVE SumF(_, _)
SumF(S, g) == IF S = {} THEN 0 ELSE LET x == CHOOSE y \in S : TRUE IN g[x] + SumF(S \ {x}, g)
RECURSIVE Boxes(_, _)
\* all index tuples v with lo[a] <= v[a] < hi[a]
Boxes(lo, hi) == IF lo = <<>> THEN {<<>>}
                 ELSE {<<x>> \o t : x \in Head(lo)..(Head(hi) - 1), t \in Boxes(Tail(lo), Tail(hi))}

Compatible(n, r) == Len(n) = Len(r) /\ \A a \in 1..Len(n) : n[a] % r[a] = 0 \/ r[a] % n[a] = 0
\* per axis: how many data voxels per native voxel (finer) - 1 when coarser or equal
FineFactor(n, r) == ProdQ([a \in 1..Len(n) |-> IF r[a] > n[a] THEN r[a] \div n[a] ELSE 1])
\* native voxels covered by data voxel x at resolution r (a box in native indices)
NativeBox(n, r, x) ==
  Boxes([a \in 1..Len(n) |-> IF r[a] >= n[a] THEN x[a] \div (r[a] \div n[a]) ELSE x[a] * (n[a] \div r[a])],
        [a \in 1..Len(n) |-> IF r[a] >= n[a] THEN x[a] \div (r[a] \div n[a]) + 1 ELSE (x[a] + 1) * (n[a] \div r[a])])
\* effective volume of data voxel x, in units of native volume / D
EffVol(n, w, D, r, x) ==
  LET B == NativeBox(n, r, x)
  IN SumF(B, [v \in B |-> w[CRankG(n, v) + 1]]) * (D \div FineFactor(n, r))
Integral(n, w, D, r, slice) ==
  LET X == 0..ProdQ(r) - 1
  IN SumF(X, [k \in X |-> slice[k + 1] * EffVol(n, w, D, r, CUnrank(r, k))])

\* replication of a slice given at resolution b to resolution r (r multiple of b per axis)
Replicate(b, r, slice) == [k \in 1..ProdQ(r) |->
     slice[CRankG(b, [a \in 1..Len(b) |-> CUnrank(r, k - 1)[a] \div (r[a] \div b[a])]) + 1]]

\* one recorded integrate() call
D_ok(e) == e.D % FineFactor(e.n, e.r) = 0
IntegrateOk(e) == /\ Compatible(e.n, e.r)
                  /\ D_ok(e)
                  /\ Len(e.val) = Len(e.data)
                  /\ \A s \in 1..Len(e.data) : e.val[s] = Integral(e.n, e.w, e.D, e.r, e.data[s])
=============================================================================
