SPECIFICATION Spec
CONSTANTS Rule = "sharedmemo"
 MaxLen = 5
INVARIANT UseReturnsOwn
CHECK_DEADLOCK FALSE
