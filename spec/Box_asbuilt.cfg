SPECIFICATION Spec
CONSTANTS N = 3
 Rule = "asbuilt"
 MaxPts = 2
INVARIANT InverseRoundTrip
INVARIANT Emit
CHECK_DEADLOCK FALSE
