----------------------------- MODULE Trace_Axes -----------------------------
(* C20: tables logged from the axis helpers, slicing / reduction by name   *)
(* versus by index, and the layout helpers, judged against Axes.tla.       *)
EXTENDS Axes, TLC, Json, IOUtils
VARIABLE l
Lines == TLCGet(7)
Init == TLCSet(7, ndJsonDeserialize(IOEnv.TRACE_FILE)) /\ l = 1

LayoutVerdict(e) ==
  IF e.m2cok = 0 THEN "LayoutTotal"
  ELSE IF e.cshape # CartShape(e.n, e.shape) THEN "LayoutShape"
  ELSE IF ~(\A p \in AllIdx(e.cshape) : At(e.m2c, p) = CartTag(e.n, e.shape, p)) THEN "LayoutPlacement"
  ELSE IF e.back # "same" THEN "LayoutInverse"
  ELSE "ok"

\* by-name result must equal the by-index result for the matrix axis the
\* coordinate system associates with the name (Axes.tla table)
ByNameVerdict(e) ==
  IF e.byindexok[MatOf(e.n, e.c + 1)] = 0 THEN "ByIndexTotal"
  ELSE IF e.bynameok = 0 THEN "ByNameTotal"
  \* the by-index result itself is the plain array reduction / slice along that matrix axis
  ELSE IF e.byindex[MatOf(e.n, e.c + 1)] # e.plain[MatOf(e.n, e.c + 1)] THEN "ByIndexIsArrayOperation"
  ELSE IF e.byname # e.byindex[MatOf(e.n, e.c + 1)] THEN "ByNameSelectsSameData"
  ELSE IF e.bynamemeta # e.byindexmeta[MatOf(e.n, e.c + 1)] THEN "ByNameSamePlacement"
  ELSE "ok"

\* one observed call interpret_indexing(axis, indexing): e.fa / e.fi = family ("m" matrix, "c" Cartesian) of the axis and
\* of the indexing it is expressed in, e.k = 0-based position of the axis in its family, e.res = <<index, reversed>>
CallExpected(e) ==
  IF e.fa = e.fi THEN <<e.k, 0>>
  ELSE IF e.fa = "m" THEN <<CartOf(e.n, e.k + 1) - 1, IF Reversed(e.n, e.k + 1) THEN 1 ELSE 0>>
  ELSE <<MatOf(e.n, e.k + 1) - 1, IF Reversed(e.n, MatOf(e.n, e.k + 1)) THEN 1 ELSE 0>>
CallVerdict(e) == IF e.res = <<-1, -1>> THEN "HelpersTotal"
                  ELSE IF e.res # CallExpected(e) THEN "ObservedCallAgreesWithTable" ELSE "ok"

Verdict(e) == CASE e.op = "tables" -> FirstFailing(AxesClauses(e))
                [] e.op = "call" -> CallVerdict(e)
                [] e.op = "layout" -> LayoutVerdict(e)
                [] e.op \in {"slice", "reduce"} -> ByNameVerdict(e)
Judge(e) == LET r == Verdict(e) IN
            IF e.op = "tables" /\ r # "ok" THEN PrintT(<<"BAD", e.tid, l, AllFailing(AxesClauses(e))>>)
            ELSE IF r # "ok" THEN PrintT(<<"BAD", e.tid, l, r>>)
            ELSE IF e.op = "tables" /\ [k \in DOMAIN SpecAxes(e.n) |-> e[k]] # SpecAxes(e.n)
                 THEN PrintT(<<"DRIFT", e.tid, l, "table differs from Axes.tla">>) ELSE TRUE
Next == /\ l <= Len(Lines)
        /\ Judge(Lines[l])
        /\ l' = l + 1
        /\ (l' > Len(Lines) => PrintT(<<"DONE", Len(Lines)>>))
Spec == Init /\ [][Next]_l
=============================================================================
