---------------------------- MODULE MC_LinSolve ----------------------------
(* (a) pattern theorems over all shapes up to the bound; (c) every sequence *)
(* of up to MaxLen solves over two matrices and the reuse flag: a reused    *)
(* factorisation gives the right answer exactly when the matrix did not     *)
(* change since it was set up (the precondition under which the property    *)
(* promises reuse).                                                         *)
EXTENDS LinSolve, TLC
CONSTANTS Max1, Max2, Max3, MaxLen
VARIABLES shape, st, hist, ok
vars == <<shape, st, hist, ok>>
MaxExt(n) == CASE n = 1 -> Max1 [] n = 2 -> Max2 [] n = 3 -> Max3
Init == shape = <<1>> /\ st = [has |-> FALSE, forMat |-> 0] /\ hist = <<>> /\ ok = TRUE
Grow == /\ hist = <<>>
        /\ \/ \E d \in Axes(shape) : shape[d] < MaxExt(Len(shape)) /\ shape' = [shape EXCEPT ![d] = @ + 1]
           \/ Len(shape) < 3 /\ (\A d \in Axes(shape) : shape[d] = 1) /\ shape' = Append(shape, 1)
        /\ UNCHANGED <<st, hist, ok>>
Solve == /\ shape = <<2>> /\ Len(hist) < MaxLen
         /\ \E mat \in {1, 2} : \E reuse \in BOOLEAN :
              /\ (reuse /\ st.has => st.forMat = mat)        \* precondition of reuse: unchanged matrix
              /\ st' = CachePost(st, mat, reuse)
              /\ ok' = ResultCorrect(st, mat, reuse)
              /\ hist' = Append(hist, <<mat, reuse>>)
         /\ UNCHANGED shape
Next == Grow \/ Solve
Spec == Init /\ [][Next]_vars
ReuseIsSound == ok
\* the multiplier couples only to the pinned cell; every cell with a face is on the diagonal
PatternTheorem == \A pin \in 0..NumCells(shape) - 1 :
   LET P == ReducedPattern(shape, pin) IN
   /\ \A x \in P : <<x[2], x[1]>> \in P
   /\ Cardinality({x \in P : x[1] = NumCells(shape)}) = 1
Emit == hist # <<>> \/ PrintT(<<"SCN", shape>>)
EmitHist == hist = <<>> \/ PrintT(<<"HIST", hist>>)
=============================================================================
