SPECIFICATION Spec
CONSTANTS MaxN = 4
 MaxM = 2
INVARIANT ZeroSelf
INVARIANT Symmetric
INVARIANT Scales
INVARIANT MomentBound
INVARIANT MidpointBelowCorner
INVARIANT Emit
CHECK_DEADLOCK FALSE
