----------------------------- MODULE Corrections -----------------------------
(* The copy / in-place / array / series contract of corrections (C10).     *)
(* Abstract heap: an input object (array or image) with a buffer version   *)
(* and a metadata version; a correction is an uninterpreted pixel function *)
(* F with the flag `mutates` (its correct_array writes into its argument)  *)
(* and a flag `perSliceHook` (it implements correct_array_series).         *)
(* CorrectionsImpl below transcribes BaseCorrection.__call__ including the *)
(* buffer aliasing: which buffer correct_array receives in each branch.    *)
(* Contract:                                                               *)
(*   not overwrite : input buffer and metadata untouched, result is a new  *)
(*                   object of the same class, data = F(raw), metadata =   *)
(*                   input's plus declared updates                         *)
(*   overwrite     : (images) the very same object carries the result      *)
(*   series        : data[t] = F(slice t)                                  *)
EXTENDS Integers, Sequences, FiniteSets, TLC

Kinds == {"array", "scalar", "optical", "series"}

\* ---- implementation-shaped model of the workflow: what happens to the INPUT buffer
\* returns [inputTouched, sameObject, resultIsF]
Workflow(kind, overwrite, mutates, hook) ==
  IF kind = "array" THEN
       \* overwrite: correct_array(image) on the caller's array; else on a copy
       [inputTouched |-> overwrite /\ mutates, sameObject |-> FALSE, resultIsF |-> TRUE]
  ELSE IF kind = "series" /\ ~hook THEN
       \* slices of image.img (views of the ORIGINAL buffer) are handed to correct_array in both modes
       [inputTouched |-> mutates \/ overwrite, sameObject |-> overwrite, resultIsF |-> TRUE]
  ELSE \* single image, or series with hook: img = image.img if overwrite else copy
       [inputTouched |-> overwrite, sameObject |-> overwrite, resultIsF |-> TRUE]

ContractHolds(kind, overwrite, mutates, hook) ==
  LET w == Workflow(kind, overwrite, mutates, hook) IN
  /\ (~overwrite => ~w.inputTouched)
  /\ (kind # "array" => (w.sameObject <=> overwrite))
  /\ w.resultIsF

\* ---- judging a recorded application
\* e.kind, e.overwrite, e.neutral in {0,1}; observables in {0,1}:
\*   same_object, input_unchanged, class_same, result_is_F (per slice for series), meta_ok, pixels_unchanged
Clauses(e) ==
  << <<"CorrectionTotal", e.raised = 0>>,
     <<"InputUntouchedWithoutOverwrite", e.raised = 0 /\ e.overwrite = 0 => e.input_unchanged = 1>>,
     <<"ResultOwnsItsPixelsWithoutOverwrite", e.raised = 0 /\ e.overwrite = 0 => e.independent = 1>>,
     <<"NewObjectWithoutOverwrite", e.raised = 0 /\ e.overwrite = 0 /\ e.kind # "array" => e.same_object = 0 /\ e.class_same = 1>>,
     <<"SameObjectWithOverwrite", e.raised = 0 /\ e.overwrite = 1 /\ e.kind # "array" => e.same_object = 1>>,
     <<"ResultIsCorrectionOfRawArray", e.raised = 0 => e.result_is_F = 1>>,
     <<"MetadataIsInputPlusDeclaredUpdates", e.raised = 0 /\ e.kind # "array" => e.meta_ok = 1>>,
     <<"NeutralParametersLeavePixels", e.raised = 0 /\ e.neutral = 1 => e.pixels_unchanged = 1>> >>
AllFailingK(cl) == {cl[i][1] : i \in {j \in DOMAIN cl : ~cl[j][2]}}
=============================================================================
