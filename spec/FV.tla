--------------------------------- MODULE FV ---------------------------------
(* Finite-volume operators on tensor grids (C06), on integer data.         *)
(* A grid is given by tables G (format of Grid.tla: shape, faces, conn,    *)
(* rev, all 0-based numbers inside 1-based sequences) and integer voxel    *)
(* sizes h.  All operators are defined through the connectivity, so they   *)
(* are independent of how faces happen to be numbered; C07 judges the      *)
(* numbering itself.                                                       *)
EXTENDS Grid

AxisOf(G, f) == CHOOSE d \in Axes(G.shape) : f \in Range(G.faces[d])
RECURSIVE ProdExcept(_, _, _)
ProdExcept(h, d, i) == IF i > Len(h) THEN 1
                       ELSE (IF i = d THEN 1 ELSE h[i]) * ProdExcept(h, d, i + 1)
Area(h, d) == ProdExcept(h, d, 1)
Volume(h) == ProdSeq(h)
Lo(G, f) == G.conn[f + 1][1]
Hi(G, f) == G.conn[f + 1][2]
FaceSet(G) == 0..Len(G.conn) - 1
CellSet(G) == 0..NumCells(G.shape) - 1

RECURSIVE SumFun(_, _)
SumFun(S, g) == IF S = {} THEN 0
                ELSE LET x == CHOOSE y \in S : TRUE IN g[x] + SumFun(S \ {x}, g)

\* divergence matrix as a set of <<row(cell), col(face), value>>
DivEntries(G, h) == UNION {{<<Lo(G, f), f, Area(h, AxisOf(G, f))>>,
                           <<Hi(G, f), f, -Area(h, AxisOf(G, f))>>} : f \in FaceSet(G)}
\* net outflow of cell c for face flux u (sequence, index f+1)
Div(G, h, u, c) == LET term(f) == IF Lo(G, f) = c THEN Area(h, AxisOf(G, f)) * u[f + 1]
                                  ELSE IF Hi(G, f) = c THEN -Area(h, AxisOf(G, f)) * u[f + 1] ELSE 0
                   IN SumFun(FaceSet(G), [f \in FaceSet(G) |-> term(f)])

\* cell reconstruction: value * q at reference point t/q (per axis)
Below(G, d, c) == G.rev[d][c + 1][1]
Above(G, d, c) == G.rev[d][c + 1][2]
UAt(u, f) == IF f = -1 THEN 0 ELSE u[f + 1]
FaceToCell(G, u, t, q, c, d) == (q - t[d]) * UAt(u, Below(G, d, c)) + t[d] * UAt(u, Above(G, d, c))

\* cell-to-face averages, times 60 (cell values in 1..3 keep this integral)
Pick(kind, v, c, d) == CASE kind = "scalar" -> v[c + 1]
                         [] kind = "vector" -> v[c + 1][d]
                         [] kind = "tensor" -> v[c + 1][d][d]
CellToFace60(G, kind, mode, v, f) ==
  LET d == AxisOf(G, f)
      a == Pick(kind, v, Lo(G, f), d)
      b == Pick(kind, v, Hi(G, f), d)
  \* (harmonic mean of non-negative values: 0 as soon as one of the two is 0 - no transmissibility across such a face)
  IN IF mode = "arithmetic" THEN 30 * (a + b) ELSE IF a = 0 \/ b = 0 THEN 0 ELSE (120 * a * b) \div (a + b)

\* tangential reconstruction, times 4: i-th tangential direction of face f
OtherAxes(n, d) == SetToSortedSeq(1..n \ {d})
Tangential4(G, u, f, i) ==
  LET d == AxisOf(G, f)
      dp == OtherAxes(Len(G.shape), d)[i]
  IN UAt(u, Below(G, dp, Lo(G, f))) + UAt(u, Above(G, dp, Lo(G, f)))
     + UAt(u, Below(G, dp, Hi(G, f))) + UAt(u, Above(G, dp, Hi(G, f)))
AllFourExist(G, f, i) ==
  LET d == AxisOf(G, f)
      dp == OtherAxes(Len(G.shape), d)[i]
  IN /\ Below(G, dp, Lo(G, f)) # -1 /\ Above(G, dp, Lo(G, f)) # -1
     /\ Below(G, dp, Hi(G, f)) # -1 /\ Above(G, dp, Hi(G, f)) # -1

-----------------------------------------------------------------------------
(* Judging logged results.  e.G = grid tables, e.h = integer voxel sizes   *)
(* (all 1 when the harness normalised a float grid by its own areas).      *)
DivVerdict(e) ==
  LET E == {<<x[1], x[2], x[3]>> : x \in Range(e.entries)} IN
  IF e.nrows # NumCells(e.G.shape) \/ e.ncols # Len(e.G.conn) THEN "DivShape"
  ELSE IF Cardinality(E) # Len(e.entries) THEN "DivDuplicateEntries"
  ELSE IF ~(\A f \in FaceSet(e.G) : SumFun({x \in E : x[2] = f}, [x \in E |-> x[3]]) = 0) THEN "TotalDivergenceVanishes"
  ELSE IF E # DivEntries(e.G, e.h) THEN "DivIsNetOutflow"
  ELSE "ok"
MassVerdict(e) ==
  IF e.offdiag # 0 THEN "MassDiagonal"
  ELSE IF Len(e.diag) # (IF e.mode = "cells" THEN NumCells(e.G.shape) ELSE Len(e.G.conn)) THEN "MassShape"
  ELSE IF \E i \in 1..Len(e.diag) : e.diag[i] # Volume(e.h) THEN "MassIsVolume"
  ELSE "ok"
F2CVerdict(e) ==
  IF Len(e.res) # NumCells(e.G.shape) THEN "FaceToCellShape"
  ELSE IF \A c \in CellSet(e.G) : \A d \in Axes(e.G.shape) :
            e.res[c + 1][d] = FaceToCell(e.G, e.u, e.t, e.q, c, d) THEN "ok"
  ELSE "FaceToCellInterpolates"
C2FVerdict(e) ==
  IF Len(e.res) # Len(e.G.conn) THEN "CellToFaceShape"
  ELSE IF \A f \in FaceSet(e.G) : e.res[f + 1] = CellToFace60(e.G, e.kind, e.mode, e.v, f) THEN "ok"
  ELSE "CellToFaceMean"
TangVerdict(e) ==
  LET n == Len(e.G.shape) IN
  IF Len(e.res) # n - 1 THEN "TangentialShape"
  ELSE IF \A i \in 1..n-1 : \A f \in FaceSet(e.G) : e.res[i][f + 1] = Tangential4(e.G, e.u, f, i) THEN "ok"
  ELSE "TangentialAverage"
FullVerdict(e) ==
  LET n == Len(e.G.shape) IN
  IF \A f \in FaceSet(e.G) : \A d \in 1..n :
        e.res[f + 1][d] = (IF d = AxisOf(e.G, f) THEN 4 * e.u[f + 1]
                           ELSE LET i == CHOOSE j \in 1..n-1 : OtherAxes(n, AxisOf(e.G, f))[j] = d
                                IN Tangential4(e.G, e.u, f, i))
  THEN "ok" ELSE "FullReconstruction"
FVVerdict(e) == CASE e.op = "div" -> DivVerdict(e)
                  [] e.op = "mass" -> MassVerdict(e)
                  [] e.op = "f2c" -> F2CVerdict(e)
                  [] e.op = "c2f" -> C2FVerdict(e)
                  [] e.op = "tang" -> TangVerdict(e)
                  [] e.op = "full" -> FullVerdict(e)
=============================================================================
