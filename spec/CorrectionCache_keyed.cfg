SPECIFICATION Spec
CONSTANTS Shapes <- ShapeSet
 Rule = "keyed"
 MaxLen = 3
INVARIANT ResultHasShapeOfItsInput
CHECK_DEADLOCK FALSE
