SPECIFICATION Spec
CONSTANTS NumIter = 6
 MaxRuns = 2
 Rule = "fixed"
INVARIANT ConvergedOnlyIfCriteria
INVARIANT FaultFlagged
INVARIANT DistanceOfReturned
INVARIANT ReturnedIsLastValid
INVARIANT Emit
CHECK_DEADLOCK FALSE
