SPECIFICATION Spec
CONSTANTS NumIter = 6
 Rule = "fixed"
INVARIANT ConvergedOnlyIfCriteria
INVARIANT FaultFlagged
INVARIANT DistanceOfReturned
INVARIANT ReturnedIsLastValid
INVARIANT Emit
CHECK_DEADLOCK FALSE
