SPECIFICATION Spec
CONSTANTS Rule = "asbuilt"
 MaxLen = 4
INVARIANT DependsOnlyOnArguments

CHECK_DEADLOCK FALSE
