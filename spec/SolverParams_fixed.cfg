SPECIFICATION Spec
CONSTANTS Rule = "fixed"
 MaxLen = 3
INVARIANT CallUsesCurrentParameters
INVARIANT Emit
CHECK_DEADLOCK FALSE
