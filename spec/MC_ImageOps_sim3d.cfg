SPECIFICATION Spec
CONSTANTS N1 = 3
 N2 = 2
 N3 = 3
 RootT = 2
 MaxLen = 4
INVARIANT BoxInsideRoot
INVARIANT TimesInsideRoot
INVARIANT Emit
CHECK_DEADLOCK FALSE
