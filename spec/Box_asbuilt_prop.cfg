SPECIFICATION Spec
CONSTANTS N = 3
 Rule = "asbuilt"
 MaxPts = 2
INVARIANT Covers
CHECK_DEADLOCK FALSE
