SPECIFICATION Spec
CONSTANTS N1 = 2
 N2 = 2
 N3 = 2
 RootT = 2
 MaxLen = 1
INVARIANT BoxInsideRoot
INVARIANT TimesInsideRoot
INVARIANT TagsAreRestriction
INVARIANT Emit
PROPERTY Nesting
CHECK_DEADLOCK FALSE
