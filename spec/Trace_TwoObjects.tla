-------------------------- MODULE Trace_TwoObjects --------------------------
(* Replays of TwoObjects' interleavings on twin objects of a real class.    *)
(* An event carries the history <<kind, object>>* and, for every use, whose *)
(* expected result the real result equalled ("a", "b" or "neither"; the     *)
(* expected results of the twins differ, checked by the driver).            *)
EXTENDS Integers, Sequences, TLC, Json, IOUtils
VARIABLE l
Lines == TLCGet(7)
Init == TLCSet(7, ndJsonDeserialize(IOEnv.TRACE_FILE)) /\ l = 1
Uses(h) == SelectSeq(h, LAMBDA s : s[1] = "use")
WellFormed(h) == \A i \in 1..Len(h) : h[i][1] = "use" => \E j \in 1..(i - 1) : h[j] = <<"make", h[i][2]>>
Verdict(e) ==
  IF ~WellFormed(e.hist) \/ e.distinct = 0 THEN "HarnessScenario"
  ELSE IF e.raised = 1 THEN "LifecycleTotal"
  ELSE IF Len(e.results) # Len(Uses(e.hist)) THEN "HarnessScenario"
  ELSE IF \A i \in 1..Len(e.results) : e.results[i] = Uses(e.hist)[i][2] THEN "ok"
  ELSE "UseReturnsOwn"
Judge(e) == LET r == Verdict(e) IN IF r = "ok" THEN TRUE ELSE PrintT(<<"BAD", e.tid, l, r>>)
Next == /\ l <= Len(Lines)
        /\ Judge(Lines[l])
        /\ l' = l + 1
        /\ (l' > Len(Lines) => PrintT(<<"DONE", Len(Lines)>>))
Spec == Init /\ [][Next]_l
=============================================================================
