------------------------------- MODULE Models -------------------------------
(* Signal-to-data models (C14), exact part on integers:                    *)
(*  clipping, scaling / linear (affine) models, sequential composition and *)
(*  routing of a flat parameter vector in a combined model, label-wise     *)
(*  (heterogeneous) linear model, static thresholding with mask, and the   *)
(*  monomials spanning the polynomial space of total degree d.             *)
(*  Kernel interpolation enters through quantised observables (E4).        *)
EXTENDS Integers, Sequences, FiniteSets

NONE == -999999                        \* "no bound" / "no value"
ClipV(lo, hi, x) == LET y == IF lo # NONE /\ x < lo THEN lo ELSE x
                    IN IF hi # NONE /\ y > hi THEN hi ELSE y

\* a model is <<"scaling", a>>, <<"linear", a, b>> or <<"clip", lo, hi>>
Apply(m, x) == CASE m[1] = "scaling" -> m[2] * x
                 [] m[1] = "linear" -> m[2] * x + m[3]
                 [] m[1] = "clip" -> ClipV(m[2], m[3], x)
RECURSIVE Compose(_, _)
Compose(ms, x) == IF ms = <<>> THEN x ELSE Compose(Tail(ms), Apply(Head(ms), x))
NumParams(m) == IF m[1] = "scaling" THEN 1 ELSE 2
ParamNames(m) == CASE m[1] = "scaling" -> <<"scaling">>
                   [] m[1] = "linear" -> <<"scaling", "offset">>
                   [] m[1] = "clip" -> <<"min_value", "max_value">>
Params(m) == SubSeq(m, 2, Len(m))

\* routing "all": model k takes the next NumParams entries of the flat vector
RECURSIVE RouteAll(_, _)
RouteAll(ms, p) == IF ms = <<>> THEN <<>>
                   ELSE LET n == NumParams(Head(ms))
                        IN <<<<Head(ms)[1]>> \o SubSeq(p, 1, n)>> \o RouteAll(Tail(ms), SubSeq(p, n + 1, Len(p)))
\* routing a subset: dofs = sequence of <<model position (0-based), parameter name>>;
\* each entry consumes exactly one entry of the flat vector, in order
SetParam(m, name, v) == LET names == ParamNames(m)
                            k == CHOOSE i \in 1..Len(names) : names[i] = name
                        IN [m EXCEPT ![k + 1] = v]
RECURSIVE RouteSubset(_, _, _)
RouteSubset(ms, dofs, p) ==
  IF dofs = <<>> THEN ms
  ELSE LET pos == Head(dofs)[1] + 1
       IN RouteSubset([ms EXCEPT ![pos] = SetParam(ms[pos], Head(dofs)[2], Head(p))], Tail(dofs), Tail(p))
ValidDofs(ms, dofs) == \A i \in 1..Len(dofs) :
     /\ dofs[i][1] + 1 \in 1..Len(ms)
     /\ \E k \in 1..Len(ParamNames(ms[dofs[i][1] + 1])) : ParamNames(ms[dofs[i][1] + 1])[k] = dofs[i][2]

\* heterogeneous linear: on label region L the homogeneous model (a_L, b_L)
HetLinear(labels, uniq, a, b, x) == [k \in 1..Len(x) |->
     LET li == CHOOSE i \in 1..Len(uniq) : uniq[i] = labels[k] IN a[li] * x[k] + b[li]]
Threshold(lo, hi, mask, x) == [k \in 1..Len(x) |->
     IF x[k] > lo /\ (hi = NONE \/ x[k] < hi) /\ mask[k] = 1 THEN 1 ELSE 0]
HetThreshold(labels, uniq, lo, hi, mask, x) == [k \in 1..Len(x) |->
     LET li == CHOOSE i \in 1..Len(uniq) : uniq[i] = labels[k]
     IN IF x[k] > lo[li] /\ (hi = <<>> \/ x[k] < hi[li]) /\ mask[k] = 1 THEN 1 ELSE 0]
Monomials(d) == {<<i, j>> \in (0..d) \X (0..d) : i + j <= d}

Verdict(e) ==
  CASE e.op = "clip" -> {c \in {"ClipConfines", "ClipIdempotent"} :
            CASE c = "ClipConfines" -> e.res # [k \in 1..Len(e.x) |-> ClipV(e.lo, e.hi, e.x[k])]
              [] c = "ClipIdempotent" -> e.res2 # e.res}
    [] e.op = "affine" -> IF e.res = [k \in 1..Len(e.x) |-> Apply(e.model, e.x[k])] THEN {} ELSE {"AffineInSignal"}
    [] e.op = "combined" -> IF e.res = [k \in 1..Len(e.x) |-> Compose(e.models, e.x[k])] THEN {} ELSE {"CombinedIsComposition"}
    [] e.op = "route" ->
         \* after the update the combined model evaluates as the composition with the parameters it reports
         (IF e.raised = 0 /\ e.x # <<>> /\ e.resafter # [k \in 1..Len(e.x) |-> Compose(e.after, e.x[k])] THEN {"CombinedEvaluatesWithRoutedParameters"} ELSE {})
         \cup
         (IF e.dofsall = 1
            THEN (IF e.raised = 0 /\ e.after = RouteAll(e.models, e.params) THEN {} ELSE {"ParametersRoutedInOrder"})
            ELSE (IF ~ValidDofs(e.models, e.dofs) THEN {}
                  ELSE IF e.raised = 0 /\ e.after = RouteSubset(e.models, e.dofs, e.params) THEN {} ELSE {"ParameterSubsetRouted"}))
    [] e.op = "hetlinear" -> IF e.raised = 0 /\ e.res = HetLinear(e.labels, e.uniq, e.a, e.b, e.x) THEN {} ELSE {"HeterogeneousAgreesPerLabel"}
    [] e.op = "threshold" -> IF e.res = Threshold(e.lo, e.hi, e.mask, e.x) THEN {} ELSE {"ThresholdStrictlyBetweenInMask"}
    [] e.op = "hetthreshold" -> IF e.res = HetThreshold(e.labels, e.uniq, e.lo, e.hi, e.mask, e.x) THEN {} ELSE {"ThresholdStrictlyBetweenInMask"}
    [] e.op = "polyspace" -> IF e.size = Cardinality(Monomials(e.d)) /\ {<<q[1], q[2]>> : q \in {e.exps[i] : i \in 1..Len(e.exps)}} = Monomials(e.d)
                                /\ Len(e.exps) = e.size THEN {} ELSE {"PolynomialSpaceTotalDegree"}
    [] e.op = "kernel" -> {c \in {"KernelReproducesSupports", "AcceleratedEqualsPlainSum"} :
            CASE c = "KernelReproducesSupports" -> e.reproexp > e.reprobound
              [] c = "AcceleratedEqualsPlainSum" -> e.accexp > -4}
=============================================================================
