SPECIFICATION Spec
CONSTANTS Rule = "percoefficient"
 MaxLen = 3
INVARIANT CallUsesCurrentParameters
CHECK_DEADLOCK FALSE
