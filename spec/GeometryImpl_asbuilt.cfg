SPECIFICATION Spec
CONSTANTS Rule = "scalar_asbuilt"
 MaxLen = 5
INVARIANT HistoryIndependent
CHECK_DEADLOCK FALSE
