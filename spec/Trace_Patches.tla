---------------------------- MODULE Trace_Patches ----------------------------
EXTENDS Patches, TLC, Json, IOUtils
VARIABLE l
Lines == TLCGet(7)
Init == TLCSet(7, ndJsonDeserialize(IOEnv.TRACE_FILE)) /\ l = 1
Judge(e) ==
  IF e.op = "unbuildable" THEN
       (IF Buildable(e.n[1], e.k[1]) /\ Buildable(e.n[2], e.k[2]) THEN PrintT(<<"BAD", e.tid, l, "PatchesCanBeBuilt">>) ELSE TRUE)
  ELSE IF ~(Buildable(e.n[1], e.k[1]) /\ Buildable(e.n[2], e.k[2])) THEN TRUE   \* outside the property's precondition
  ELSE LET f == AllFailingP(PatchClauses(e)) IN
       IF f # {} THEN PrintT(<<"BAD", e.tid, l, f>>)
       ELSE IF e.pv # <<PV(e.n[1], e.k[1]), PV(e.n[2], e.k[2])>>
               \/ e.ov # <<OV(e.n[1], e.k[1], e.relp, e.relq), OV(e.n[2], e.k[2], e.relp, e.relq)>>
            THEN PrintT(<<"DRIFT", e.tid, l, "patch or overlap size differs from ceil model">>) ELSE TRUE
Next == /\ l <= Len(Lines)
        /\ Judge(Lines[l])
        /\ l' = l + 1
        /\ (l' > Len(Lines) => PrintT(<<"DONE", Len(Lines)>>))
Spec == Init /\ [][Next]_l
=============================================================================
