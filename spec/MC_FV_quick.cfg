SPECIFICATION Spec
CONSTANTS MaxExt = 3
 MaxCells = 9
 HSet = {1, 2}
 MaxFacesForFlux = 4
INVARIANT DivergenceTheorem
INVARIANT Adjointness
INVARIANT NetOutflowPerCell
INVARIANT RT0
INVARIANT ConstantsReproduced
INVARIANT Emit
CHECK_DEADLOCK FALSE
