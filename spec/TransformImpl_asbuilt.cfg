SPECIFICATION Spec
CONSTANT Rule = "asbuilt"
INVARIANT InverseIsInverse
INVARIANT RotationOk
INVARIANT Emit
CHECK_DEADLOCK FALSE
