------------------------------ MODULE MC_Grid ------------------------------
(* Exhaustive check over the shape range of C07: the specification's own   *)
(* tables satisfy every clause (coherence of the first-principles model),  *)
(* and scenario emission for the conformance driver.                       *)
EXTENDS Grid, TLC
CONSTANTS Max1, Max2, Max3
VARIABLE shape

MaxExt(n) == CASE n = 1 -> Max1 [] n = 2 -> Max2 [] n = 3 -> Max3

Init == shape = <<1>>
Grow(d) == shape[d] < MaxExt(Len(shape)) /\ shape' = [shape EXCEPT ![d] = @ + 1]
AddAxis == /\ Len(shape) < 3 /\ \A d \in Axes(shape) : shape[d] = 1
           /\ MaxExt(Len(shape) + 1) >= 1
           /\ shape' = Append(shape, 1)
Next == (\E d \in Axes(shape) : Grow(d)) \/ AddAxis
Spec == Init /\ [][Next]_shape

T == SpecTables(shape)
ClausesHold == FirstFail(GridClauses(T)) = "ok"

\* additional theorems of the model that the clauses alone do not state
FaceNumBijection ==
  LET s == shape
      P == {<<d, c>> \in UNION {{<<d, Unrank(s, r)>> : r \in 0..NumCells(s)-1} : d \in Axes(s)} :
               c[d] < s[d] - 1}
  IN /\ Cardinality(P) = NumFaces(s)
     /\ {FaceNum(s, p[1], p[2]) : p \in P} = 0..NumFaces(s) - 1
     /\ \A p \in P : AxisOfFace(s, FaceNum(s, p[1], p[2])) = p[1]
                     /\ LowerCell(s, FaceNum(s, p[1], p[2])) = p[2]
RankUnrank == \A r \in 0..NumCells(shape) - 1 : Rank(shape, Unrank(shape, r)) = r
Emit == PrintT(<<"SCN", shape>>)
=============================================================================
