--------------------------- MODULE MC_Quadrature ---------------------------
(* All (dim, points per direction, cell) of the API range: the reference   *)
(* tensor rules satisfy every clause within the fixed-point tolerance (no  *)
(* clause is vacuous or over-strict), and the scenario list is emitted.    *)
EXTENDS Quadrature, TLC
VARIABLES d, n, cell
vars == <<d, n, cell>>
Init == d = 1 /\ n = 1 /\ cell = "sym"
Next == \/ n < 5 /\ n' = n + 1 /\ UNCHANGED <<d, cell>>
        \/ d < 3 /\ n = 1 /\ d' = d + 1 /\ UNCHANGED <<n, cell>>
        \/ cell = "sym" /\ cell' = "unit" /\ UNCHANGED <<d, n>>
Spec == Init /\ [][Next]_vars
R == RefRule(d, n, cell)
ReferenceOk == AllFailing(RuleClauses(R)) = {}
CornerOk == LET c == [dim |-> d, pts |-> SetToSeq([1..d -> {0, 1}]),
                      wi |-> [j \in 1..IPow(2, d) |-> 1]]
            IN AllFailing(CornerClauses(c)) = {}
Emit == PrintT(<<"SCN", d, n, cell>>)
=============================================================================
