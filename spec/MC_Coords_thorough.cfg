SPECIFICATION Spec
CONSTANTS MaxExt = 3
 Halo = 2
INVARIANT TableOk
INVARIANT OriginAtZero
INVARIANT UnitStep
INVARIANT InsideGivesVoxel
INVARIANT FloorOnNegatives
INVARIANT CentreRoundTrip
INVARIANT OppositeCorner
INVARIANT Emit
CHECK_DEADLOCK FALSE
