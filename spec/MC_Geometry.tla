---------------------------- MODULE MC_Geometry ----------------------------
(* Theorems of the integration specification on small integer cases:       *)
(* linearity on a basis, invariance under replication to coarser-compatible*)
(* and finer resolutions, weights entering as effective volume.            *)
EXTENDS Geometry, TLC
CONSTANTS MaxExt
VARIABLES n, w, fld
vars == <<n, w, fld>>
D == 4
Factors(a) == {1, 2}
Init == n = <<1>> /\ w = <<1>> /\ fld = <<1>>
Grow == \/ \E a \in 1..Len(n) : n[a] < MaxExt /\ n' = [n EXCEPT ![a] = @ + 1]
        \/ Len(n) < 2 /\ n' = Append(n, 1)
ChangeW == \E i \in 1..Len(w) : w[i] < 2 /\ w' = [w EXCEPT ![i] = @ + 1] /\ UNCHANGED <<n, fld>>
ChangeF == \E i \in 1..Len(fld) : fld[i] < 1 /\ fld' = [fld EXCEPT ![i] = @ + 1] /\ UNCHANGED <<n, w>>
Next == \/ Grow /\ w' = [i \in 1..ProdQ(n') |-> 1] /\ fld' = [i \in 1..ProdQ(n') |-> 0]
        \/ (ProdQ(n) <= 4 /\ ChangeW)
        \/ (ProdQ(n) <= 4 /\ ChangeF)
Spec == Init /\ [][Next]_vars

Unit(i) == [k \in 1..ProdQ(n) |-> IF k = i THEN 1 ELSE 0]
Native(s) == Integral(n, w, D, n, s)
Linear == Native(fld) = SumF(1..ProdQ(n), [i \in 1..ProdQ(n) |-> fld[i] * Native(Unit(i))])
UnitIsEffectiveVolume == \A i \in 1..ProdQ(n) : Native(Unit(i)) = w[i] * D
\* refine by 2 along each axis: same value
FinerSame == LET r == [a \in 1..Len(n) |-> 2 * n[a]] IN
             Integral(n, w, D, r, Replicate(n, r, fld)) = Native(fld)
\* the field is constant on blocks of a coarser grid b (n = 2b): supply it at b
CoarserSame == \A b \in {[a \in 1..Len(n) |-> n[a] \div 2]} :
      (\A a \in 1..Len(n) : n[a] % 2 = 0) =>
         \A cf \in [1..ProdQ(b) -> 0..1] :
            Integral(n, w, D, b, cf) = Native(Replicate(b, n, cf))
Emit == PrintT(<<"SCN", n>>)
=============================================================================
