SPECIFICATION Spec
CONSTANT MaxExt = 3
INVARIANT SpecCoherent
INVARIANT LayoutOk
INVARIANT Emit
CHECK_DEADLOCK FALSE
