SPECIFICATION Spec
CONSTANTS Rule = "scalar_fixed"
 MaxLen = 5
INVARIANT HistoryIndependent
CHECK_DEADLOCK FALSE
