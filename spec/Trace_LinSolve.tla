--------------------------- MODULE Trace_LinSolve ---------------------------
EXTENDS LinSolve, TLC, Json, IOUtils
VARIABLE l
Lines == TLCGet(7)
Init == TLCSet(7, ndJsonDeserialize(IOEnv.TRACE_FILE)) /\ l = 1
\* step the cache model along a recorded history of (matrix, reuse) solves
RECURSIVE ReuseBad(_, _, _)
ReuseBad(st, h, errs) ==
  IF h = <<>> THEN {}
  ELSE LET mat == Head(h)[1]  reuse == Head(h)[2] = 1 IN
       (IF ResultCorrect(st, mat, reuse) /\ Head(errs) > -6 THEN {"ReuseGivesSameSolution"} ELSE {})
       \cup ReuseBad(CachePost(st, mat, reuse), Tail(h), Tail(errs))
Verdict(e) == CASE e.op = "pattern" -> PatternVerdict(e)
                [] e.op = "dispatch" -> DispatchVerdict(e)
                [] e.op = "agree" -> (IF e.raised = 1 THEN "SolveTotal"
                                      ELSE IF e.errexp > -6 THEN "SameSolution"
                                      ELSE IF e.resexp > -6 THEN "SolvesFullSystem" ELSE "ok")
                [] e.op = "reuse" -> (IF e.raised = 1 THEN "SolveTotal"
                                      ELSE IF ReuseBad([has |-> FALSE, forMat |-> 0], e.hist, e.errs) = {} THEN "ok"
                                      ELSE "ReuseGivesSameSolution")
                [] e.op = "options" -> (IF e.unchanged = 1 THEN "ok" ELSE "CallerOptionsUntouched")
                [] e.op = "distance" -> (IF e.spreadexp <= -5 THEN "ok" ELSE "SameDistance")
Judge(e) == LET r == Verdict(e) IN IF r = "ok" THEN TRUE ELSE PrintT(<<"BAD", e.tid, l, r>>)
Next == /\ l <= Len(Lines)
        /\ Judge(Lines[l])
        /\ l' = l + 1
        /\ (l' > Len(Lines) => PrintT(<<"DONE", Len(Lines)>>))
Spec == Init /\ [][Next]_l
=============================================================================
