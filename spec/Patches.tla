------------------------------ MODULE Patches ------------------------------
(* Patching of 2-D images (C19), integer model.  Along one axis with n     *)
(* voxels and k patches: patch size pv = ceil(n / k); patch i has interior *)
(* [i pv, min((i+1) pv, n)) and, with an overlap of ov voxels, the ROI     *)
(* [max(i pv - ov, 0), min((i+1) pv + ov, n)).  Patches "can be built"     *)
(* when every interior is non-empty: (k - 1) pv < n.                       *)
(* Physical positions use the quarter-voxel lattice of Coords.tla.         *)
EXTENDS Coords

CeilDiv(a, b) == (a + b - 1) \div b
PV(n, k) == CeilDiv(n, k)
OV(n, k, p, q) == CeilDiv(p * n, q * k)        \* ceil(rel * n / k), rel = p/q
Buildable(n, k) == (k - 1) * PV(n, k) < n
Min(a, b) == IF a < b THEN a ELSE b
Max(a, b) == IF a > b THEN a ELSE b
IntLo(n, k, i) == i * PV(n, k)
IntHi(n, k, i) == Min((i + 1) * PV(n, k), n)
RoiLo(n, k, ov, i) == Max(i * PV(n, k) - ov, 0)
RoiHi(n, k, ov, i) == Min((i + 1) * PV(n, k) + ov, n)

\* one axis: interiors tile 0..n-1
Tiles(n, k) == /\ \A i \in 0..k-1 : IntLo(n, k, i) < IntHi(n, k, i)
               /\ IntLo(n, k, 0) = 0 /\ IntHi(n, k, k - 1) = n
               /\ \A i \in 1..k-1 : IntLo(n, k, i) = IntHi(n, k, i - 1)

-----------------------------------------------------------------------------
(* Judging a logged Patches object.  e.n = <<n1, n2>>, e.k = <<k1, k2>>;   *)
(* e.cv[i][j] = advertised voxel corners (TL, BL, BR, TR; matrix indices), *)
(* e.cx[i][j] = advertised physical corners (lattice <<x, y>>, same order),*)
(* e.ctr_x / e.ctr_v = advertised centres (lattice with half-unit doubled: *)
(*   eighth-voxel units) / voxel indices; e.roi[i][j] = <<a0,a1,b0,b1>>;   *)
(* e.rel[i][j] likewise relative; e.pshape, e.ptl, e.pbr = patch array     *)
(* shape and tags of first/last voxel; e.porigin, e.pdims (lattice).       *)
Tag(n, v) == v[1] * n[2] + v[2]                  \* arange payload, C order
P(e, i, j) == <<i + 1, j + 1>>

TilingOk(e) ==
  \A a \in 1..2 :
     LET lo(i) == IF a = 1 THEN e.cv[i + 1][1][1][1] ELSE e.cv[1][i + 1][1][2]
         hi(i) == IF a = 1 THEN e.cv[i + 1][1][3][1] ELSE e.cv[1][i + 1][3][2]
     IN /\ lo(0) = 0 /\ hi(e.k[a] - 1) = e.n[a]
        /\ \A i \in 0..e.k[a]-1 : lo(i) < hi(i)
        /\ \A i \in 1..e.k[a]-1 : lo(i) = hi(i - 1)
CornersRectangular(e) ==
  \A i \in 1..e.k[1] : \A j \in 1..e.k[2] :
     LET c == e.cv[i][j] IN
     /\ c[2] = <<c[3][1], c[1][2]>> /\ c[4] = <<c[1][1], c[3][2]>>
     /\ c[1][1] = e.cv[i][1][1][1] /\ c[3][1] = e.cv[i][1][3][1]
     /\ c[1][2] = e.cv[1][j][1][2] /\ c[3][2] = e.cv[1][j][3][2]
\* the interior of patch (i,j) inside its own array is the advertised box
RelInteriorOk(e) ==
  \A i \in 1..e.k[1] : \A j \in 1..e.k[2] :
     LET c == e.cv[i][j]  r == e.roi[i][j]  q == e.rel[i][j] IN
     /\ r[1] + q[1] = c[1][1] /\ r[3] + q[3] = c[1][2]
     /\ r[1] + Min(q[2], e.pshape[i][j][1]) = c[3][1]
     /\ r[3] + Min(q[4], e.pshape[i][j][2]) = c[3][2]
     /\ r[1] <= c[1][1] /\ c[3][1] <= Min(r[2], e.n[1])
     /\ r[3] <= c[1][2] /\ c[3][2] <= Min(r[4], e.n[2])
\* patch (i,j) is the sub-image at its ROI (clipped to the image)
PatchIsSubregion(e) ==
  \A i \in 1..e.k[1] : \A j \in 1..e.k[2] :
     LET r == e.roi[i][j]
         a1 == Min(r[2], e.n[1])  b1 == Min(r[4], e.n[2]) IN
     /\ e.pshape[i][j] = <<a1 - r[1], b1 - r[3]>>
     /\ e.ptl[i][j] = Tag(e.n, <<r[1], r[3]>>)
     /\ e.pbr[i][j] = Tag(e.n, <<a1 - 1, b1 - 1>>)
PatchPlacement(e) ==
  \A i \in 1..e.k[1] : \A j \in 1..e.k[2] :
     LET r == e.roi[i][j]
         a1 == Min(r[2], e.n[1])  b1 == Min(r[4], e.n[2]) IN
     /\ e.porigin[i][j] = CoordOf(2, <<4 * r[1], 4 * r[3]>>)
     /\ e.pdims[i][j] = <<4 * (a1 - r[1]), 4 * (b1 - r[3])>>
CornersAgree(e) ==
  \A i \in 1..e.k[1] : \A j \in 1..e.k[2] : \A c \in 1..4 :
     e.cx[i][j][c] = CoordOf(2, <<4 * e.cv[i][j][c][1], 4 * e.cv[i][j][c][2]>>)
\* centres: the advertised centre voxel is the voxel containing the advertised
\* physical centre (eighth-voxel lattice), and the physical centre is the
\* midpoint of the advertised physical corners
CentresAgree(e) ==
  \A i \in 1..e.k[1] : \A j \in 1..e.k[2] :
     \A m \in 1..2 : LET a == CartOf(2, m)
                         t == Sign(2, m) * e.ctr_x[i][j][a] IN
        \* positions that are not on the lattice cannot be judged here; they only
        \* arise together with a CornersAgree failure (extent not divisible)
        (e.ctr_x[i][j][a] # 99999999 /\ e.cx[i][j][1][a] # 99999999 /\ e.cx[i][j][3][a] # 99999999) =>
          /\ e.ctr_x[i][j][a] = e.cx[i][j][1][a] + e.cx[i][j][3][a]
          /\ IF t % 8 # 0 THEN e.ctr_v[i][j][m] = t \div 8
             ELSE e.ctr_v[i][j][m] \in {t \div 8 - 1, t \div 8}    \* centre on a voxel boundary

\* the local corners of a patch are its global corners seen from its own top-left corner
LocalCornersAgree(e) ==
  \A i \in 1..e.k[1] : \A j \in 1..e.k[2] : \A c \in 1..4 :
     e.lcv[i][j][c] = <<e.cv[i][j][c][1] - e.cv[i][j][1][1], e.cv[i][j][c][2] - e.cv[i][j][1][2]>>
PatchClauses(e) ==
  << <<"TilingOk", TilingOk(e)>>,
     <<"CornersRectangular", CornersRectangular(e)>>,
     <<"RelInteriorOk", RelInteriorOk(e)>>,
     <<"PatchIsSubregion", PatchIsSubregion(e)>>,
     <<"PatchPlacement", PatchPlacement(e)>>,
     <<"AssembleReproduces", e.assembled = 1>>,
     <<"AssembleReproducesAnyData", e.assembled_patterns = 1>>,   \* ... also images with black blocks, masks, constant images
     <<"BlendAssembleTotal", e.blend # -1>>,                 \* blend_and_assemble() returns ...
     <<"BlendedReassemblyReproduces", e.blend # 0>>,          \* ... the base image (unmodified patches, weights sum to one)
     <<"PatchUpdateTotal", e.update # -1>>,                    \* set_image(new, i, j) followed by assemble() returns ...
     <<"PatchUpdateIsLocal", e.update # 0>>,                  \* ... the new interior in the patch's region, everything else untouched
     <<"LocalCornersAgree", LocalCornersAgree(e)>>,
     <<"CornersAgree", CornersAgree(e)>>,
     <<"CentresAgree", CentresAgree(e)>> >>
AllFailingP(cl) == {cl[i][1] : i \in {j \in DOMAIN cl : ~cl[j][2]}}
=============================================================================
