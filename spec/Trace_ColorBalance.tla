-------------------------- MODULE Trace_ColorBalance --------------------------
EXTENDS ColorBalance, TLC, Json, IOUtils
VARIABLE l
Lines == TLCGet(7)
Init == TLCSet(7, ndJsonDeserialize(IOEnv.TRACE_FILE)) /\ l = 1
Verdict(e) ==
  CASE e.op = "compose" -> (IF e.raised = 1 THEN {"ComposeTotal"} ELSE IF ComposeOk(e) THEN {} ELSE {"AccumulatedEqualsSequential"})
    [] e.op = "fit" -> {c \in {"FitRecoversExactMap", "FitNeverIncreasesResidual"} :
            CASE c = "FitRecoversExactMap" -> e.resexp > -3
              [] c = "FitNeverIncreasesResidual" -> e.monotone = 0}
    [] e.op = "staged_fit" -> (IF e.seqexp <= -9 THEN {} ELSE {"AccumulatedEqualsSequential"})
                              \cup (IF e.monotone = 0 THEN {"FitNeverIncreasesResidual"} ELSE {})
                              \cup (IF e.lastaffine = 1 /\ e.resexp > -3 THEN {"FitRecoversExactMap"} ELSE {})
Judge(e) == LET f == Verdict(e) IN IF f = {} THEN TRUE ELSE PrintT(<<"BAD", e.tid, l, f>>)
Next == /\ l <= Len(Lines)
        /\ Judge(Lines[l])
        /\ l' = l + 1
        /\ (l' > Len(Lines) => PrintT(<<"DONE", Len(Lines)>>))
Spec == Init /\ [][Next]_l
=============================================================================
