SPECIFICATION Spec
CONSTANT MaxLen = 3
INVARIANT DimInRange
INVARIANT TimeListsMatch
INVARIANT Emit
CHECK_DEADLOCK FALSE
