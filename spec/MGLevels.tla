------------------------------ MODULE MGLevels ------------------------------
(* Growth beyond the listed properties: the level structure of the V-cycle  *)
(* multigrid solver (utils/linear_solvers/mg.py).  Along one axis with n    *)
(* points: restriction averages pairs and DROPS an unpaired last point      *)
(* (n -> n \div 2), prolongation repeats every value (m -> 2 m), and the    *)
(* correction is padded at the upper end to the extent of its level         *)
(* (pad = n - 2 (n \div 2), 0 or 1).  A V-cycle of depth d visits levels    *)
(* 0..d+1.  Theorems for all n <= MaxN, d <= MaxD: the padded correction    *)
(* has exactly the extent of the level it is added to, on every level; the  *)
(* pad is never negative; and the coarsest level is non-empty iff           *)
(* n >= 2^(d+1) - otherwise (e.g. extent 6 with depth 2: 6 -> 3 -> 1 -> 0)  *)
(* the recursion reaches an EMPTY array, which is what the implementation   *)
(* does as well (conformance clause, checked by the driver on the real      *)
(* restriction / prolongation for every (n, d) enumerated here).            *)
EXTENDS Integers, Sequences, TLC
CONSTANTS MaxN, MaxD
VARIABLES n, d
Init == n \in 1..MaxN /\ d \in 0..MaxD
Next == UNCHANGED <<n, d>>
Spec == Init /\ [][Next]_<<n, d>>
RECURSIVE Levels(_, _)
Levels(m, k) == IF k = 0 THEN <<m>> ELSE <<m>> \o Levels(m \div 2, k - 1)      \* extents on levels 0..k
RECURSIVE Pow2(_)
Pow2(k) == IF k = 0 THEN 1 ELSE 2 * Pow2(k - 1)
L == Levels(n, d + 1)
Pad(i) == L[i] - 2 * L[i + 1]                                                 \* padding of the correction coming up to level i
CorrectionFitsLevel == \A i \in 1..Len(L) - 1 : Pad(i) \in {0, 1} /\ 2 * L[i + 1] + Pad(i) = L[i]
CoarsestNonEmptyIff == (L[Len(L)] >= 1) <=> (n >= Pow2(d + 1))
Emit == PrintT(<<"MGL", n, d, L>>)
=============================================================================
