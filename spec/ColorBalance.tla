---------------------------- MODULE ColorBalance ----------------------------
(* Colour balances as affine maps on ROW vectors, x |-> x A + b (C12), on  *)
(* small integer matrices.  Applying stage 1 = (A1, b1) and then stage 2 = *)
(* (A2, b2) is the single balance (A1 A2, b1 A2 + b2).  AdaptiveBalance    *)
(* accumulates its stages; Rule selects how:                               *)
(*   "asbuilt" (before the fix): A := A_new A, b := A_new b + b_new only   *)
(*                               in affine mode (column-vector convention) *)
(*   "fixed"                   : A := A A_new, b := b A_new (+ b_new)      *)
(*   "resetkeepsb"             : as "fixed", but reset() forgets only A    *)
(* A stage of mode "reset" is the call reset(): the balance is neutral     *)
(* again and what was fitted before it does not matter any more.           *)
EXTENDS Integers, Sequences, FiniteSets

RECURSIVE Sum3(_, _)
Sum3(n, f) == IF n = 0 THEN 0 ELSE f[n] + Sum3(n - 1, f)
MM(A, B) == [i \in 1..3 |-> [j \in 1..3 |-> Sum3(3, [k \in 1..3 |-> A[i][k] * B[k][j]])]]
RowTimes(x, A) == [j \in 1..3 |-> Sum3(3, [k \in 1..3 |-> x[k] * A[k][j]])]
MatTimesCol(A, b) == [i \in 1..3 |-> Sum3(3, [k \in 1..3 |-> A[i][k] * b[k]])]
VAdd(a, b) == [i \in 1..3 |-> a[i] + b[i]]
I3 == << <<1, 0, 0>>, <<0, 1, 0>>, <<0, 0, 1>> >>
Z3 == <<0, 0, 0>>
ApplyBal(A, b, x) == VAdd(RowTimes(x, A), b)

\* a stage is [mode, A, b]; non-affine stages have b = 0
RECURSIVE SeqApply(_, _)
SeqApply(stages, x) == IF stages = <<>> THEN x
                       ELSE SeqApply(Tail(stages), ApplyBal(Head(stages).A, Head(stages).b, x))
LastReset(stages) == LET Rs == {i \in 1..Len(stages) : stages[i].mode = "reset"}
                     IN IF Rs = {} THEN 0 ELSE CHOOSE i \in Rs : \A j \in Rs : j <= i
Effective(stages) == SubSeq(stages, LastReset(stages) + 1, Len(stages))
Sequential(stages, x) == SeqApply(Effective(stages), x)
RECURSIVE Accumulate(_, _, _, _)
Accumulate(rule, stages, A, b) ==
  IF stages = <<>> THEN <<A, b>>
  ELSE LET s == Head(stages) IN
       IF s.mode = "reset"
         THEN Accumulate(rule, Tail(stages), I3, IF rule = "resetkeepsb" THEN b ELSE Z3)
       ELSE IF rule = "asbuilt"
         THEN Accumulate(rule, Tail(stages), MM(s.A, A), IF s.mode = "affine" THEN VAdd(MatTimesCol(s.A, b), s.b) ELSE b)
         ELSE Accumulate(rule, Tail(stages), MM(A, s.A), VAdd(RowTimes(b, s.A), s.b))
Accumulated(rule, stages, x) == LET r == Accumulate(rule, stages, I3, Z3) IN ApplyBal(r[1], r[2], x)

\* recorded composition: e.stages, e.x (swatches), e.res (accumulated balance applied)
ComposeOk(e) == e.res = [i \in 1..Len(e.x) |-> Sequential(e.stages, e.x[i])]
=============================================================================
