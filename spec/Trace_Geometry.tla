--------------------------- MODULE Trace_Geometry ---------------------------
EXTENDS Geometry, TLC, Json, IOUtils
VARIABLE l
Lines == TLCGet(7)
Init == TLCSet(7, ndJsonDeserialize(IOEnv.TRACE_FILE)) /\ l = 1
Verdict(e) ==
  CASE e.op = "integrate" ->
         (IF ~Compatible(e.n, e.r) \/ ~D_ok(e) THEN "HarnessScenario"
          ELSE IF e.raised = 1 THEN "IntegrateTotal"
          ELSE IF Len(e.val) # Len(e.data) THEN "PerSliceSeparation"
          ELSE IF IntegrateOk(e) THEN "ok" ELSE "WeightedVoxelSum")
    [] e.op = "rejected" -> (IF e.documented = 1 THEN "ok" ELSE "IntegrateTotal")
    [] e.op = "normalize" -> (IF e.relexp <= -9 THEN "ok" ELSE "NormalizeEqualises")
Judge(e) == LET r == Verdict(e) IN IF r = "ok" THEN TRUE ELSE PrintT(<<"BAD", e.tid, l, r>>)
Next == /\ l <= Len(Lines)
        /\ Judge(Lines[l])
        /\ l' = l + 1
        /\ (l' > Len(Lines) => PrintT(<<"DONE", Len(Lines)>>))
Spec == Init /\ [][Next]_l
=============================================================================
