--------------------------- MODULE Trace_Geometry ---------------------------
EXTENDS Geometry, TLC, Json, IOUtils
VARIABLE l
Lines == TLCGet(7)
Init == TLCSet(7, ndJsonDeserialize(IOEnv.TRACE_FILE)) /\ l = 1
Verdict(e) ==
  CASE e.op = "integrate" ->
         (IF ~Compatible(e.n, e.r) \/ ~D_ok(e) THEN "HarnessScenario"
          ELSE IF e.raised = 1 THEN "IntegrateTotal"
          ELSE IF Len(e.val) # Len(e.data) THEN "PerSliceSeparation"
          ELSE IF IntegrateOk(e) THEN "ok" ELSE "WeightedVoxelSum")
    [] e.op = "rejected" -> (IF e.documented = 1 THEN "ok" ELSE "IntegrateTotal")
    \* normalize(img, ref): ia / iref = integer integrals of img / ref per time step and component (harness units);
    \* relexp[k] = decimal exponent of |integral(result)[k] - iref[k]| / |iref[k]|, ratioexp[k] likewise for ratio[k] * ia[k]
    [] e.op = "normalize" ->
         (IF Len(e.ia) # Len(e.iref) \/ \E k \in DOMAIN e.ia : e.ia[k] = 0 \/ e.iref[k] = 0 THEN "HarnessScenario"
          ELSE IF e.raised = 1 THEN "NormalizeTotal"
          ELSE IF Len(e.relexp) # Len(e.ia) THEN "PerSliceSeparation"
          ELSE IF \E k \in DOMAIN e.ia : e.relexp[k] > (IF e.dtype = "float32" THEN -5 ELSE -9) THEN "NormalizeEqualises"
          ELSE IF \E k \in DOMAIN e.ia : e.ratioexp[k] > (IF e.dtype = "float32" THEN -5 ELSE -9) THEN "RatioIsQuotientOfIntegrals"
          ELSE IF e.scaledexp > (IF e.dtype = "float32" THEN -5 ELSE -12) THEN "NormalizedIsRescaledImage"
          ELSE IF e.inputs_unchanged = 0 THEN "NormalizeLeavesInputs"
          ELSE "ok")
Judge(e) == LET r == Verdict(e) IN IF r = "ok" THEN TRUE ELSE PrintT(<<"BAD", e.tid, l, r>>)
Next == /\ l <= Len(Lines)
        /\ Judge(Lines[l])
        /\ l' = l + 1
        /\ (l' > Len(Lines) => PrintT(<<"DONE", Len(Lines)>>))
Spec == Init /\ [][Next]_l
=============================================================================
