----------------------------- MODULE Trace_Grid -----------------------------
(* Validates tables recorded from darsia.Grid / generate_grid against the  *)
(* clauses of C07.  One line per grid; verdict lines are printed.          *)
EXTENDS Grid, TLC, Json, IOUtils
VARIABLE l
Lines == TLCGet(7)
Init == TLCSet(7, ndJsonDeserialize(IOEnv.TRACE_FILE)) /\ l = 1
\* large grids: the clauses evaluated by the harness on the full tables (E4), related here
BigFailing(e) == {c \in {"FaceCounts", "FacesJoinNeighbours", "RevIsInverse", "InteriorExteriorPartition", "TablesInRange"} :
                    CASE c = "FaceCounts" -> e.counts_ok = 0
                      [] c = "FacesJoinNeighbours" -> e.neighbours_ok = 0
                      [] c = "RevIsInverse" -> e.rev_inverse_ok = 0
                      [] c = "InteriorExteriorPartition" -> e.partition_ok = 0
                      [] c = "TablesInRange" -> e.kinds_ok = 0}
JudgeTables(e) == LET r == FirstFail(GridClauses(e))
            IN IF r # "ok" THEN PrintT(<<"BAD", e.tid, l, AllFail(GridClauses(e))>>)
               ELSE IF ~SameConvention(e) THEN PrintT(<<"DRIFT", e.tid, l, "numbering">>)
               ELSE TRUE
Judge(e) == IF "op" \in DOMAIN e /\ e.op = "big"
            THEN (IF BigFailing(e) = {} THEN TRUE ELSE PrintT(<<"BAD", e.tid, l, BigFailing(e)>>))
            ELSE JudgeTables(e)
Next == /\ l <= Len(Lines)
        /\ Judge(Lines[l])
        /\ l' = l + 1
        /\ (l' > Len(Lines) => PrintT(<<"DONE", Len(Lines)>>))
Spec == Init /\ [][Next]_l
=============================================================================
