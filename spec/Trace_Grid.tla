----------------------------- MODULE Trace_Grid -----------------------------
(* Validates tables recorded from darsia.Grid / generate_grid against the  *)
(* clauses of C07.  One line per grid; verdict lines are printed.          *)
EXTENDS Grid, TLC, Json, IOUtils
VARIABLE l
Lines == TLCGet(7)
Init == TLCSet(7, ndJsonDeserialize(IOEnv.TRACE_FILE)) /\ l = 1
Judge(e) == LET r == FirstFail(GridClauses(e))
            IN IF r # "ok" THEN PrintT(<<"BAD", e.tid, l, AllFail(GridClauses(e))>>)
               ELSE IF ~SameConvention(e) THEN PrintT(<<"DRIFT", e.tid, l, "numbering">>)
               ELSE TRUE
Next == /\ l <= Len(Lines)
        /\ Judge(Lines[l])
        /\ l' = l + 1
        /\ (l' > Len(Lines) => PrintT(<<"DONE", Len(Lines)>>))
Spec == Init /\ [][Next]_l
=============================================================================
