-------------------------- MODULE Trace_Quadrature --------------------------
EXTENDS Quadrature, TLC, Json, IOUtils
VARIABLE l
Lines == TLCGet(7)
Init == TLCSet(7, ndJsonDeserialize(IOEnv.TRACE_FILE)) /\ l = 1
\* the rules on offer (as built): 1-D orders 0..4, 2-D orders 0..3, 3-D orders 0..2, and "max" = the highest of them.
\* A request inside this range has to be served; outside it the library may decline (NotImplementedError).
MaxOrder(dim) == CASE dim = 1 -> 4 [] dim = 2 -> 3 [] dim = 3 -> 2 [] OTHER -> -1
Offered(dim, order) == order = "max" \/ \E k \in 0..MaxOrder(dim) : order = ToString(k)
Judge(e) ==
  IF e.op = "rejected" THEN (IF Offered(e.dim, e.order) THEN PrintT(<<"BAD", e.tid, l, "OfferedRuleAvailable">>) ELSE TRUE)
  ELSE IF e.op = "rule" /\ e.order = "max" /\ e.n # MaxOrder(e.dim) + 1 THEN PrintT(<<"BAD", e.tid, l, "MaxIsHighestOfferedOrder">>)
  ELSE LET f == IF e.op = "corners" THEN AllFailing(CornerClauses(e)) ELSE AllFailing(RuleClauses(e))
       IN IF f # {} THEN PrintT(<<"BAD", e.tid, l, f>>)
          ELSE IF e.op = "rule" /\ ~SameAsReference(e) THEN PrintT(<<"DRIFT", e.tid, l, "not the reference tensor rule">>)
          ELSE TRUE
Next == /\ l <= Len(Lines)
        /\ Judge(Lines[l])
        /\ l' = l + 1
        /\ (l' > Len(Lines) => PrintT(<<"DONE", Len(Lines)>>))
Spec == Init /\ [][Next]_l
=============================================================================
