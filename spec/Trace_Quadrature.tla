-------------------------- MODULE Trace_Quadrature --------------------------
EXTENDS Quadrature, TLC, Json, IOUtils
VARIABLE l
Lines == TLCGet(7)
Init == TLCSet(7, ndJsonDeserialize(IOEnv.TRACE_FILE)) /\ l = 1
Judge(e) ==
  IF e.op = "rejected" THEN TRUE      \* NotImplementedError outside the offered range
  ELSE LET f == IF e.op = "corners" THEN AllFailing(CornerClauses(e)) ELSE AllFailing(RuleClauses(e))
       IN IF f # {} THEN PrintT(<<"BAD", e.tid, l, f>>)
          ELSE IF e.op = "rule" /\ ~SameAsReference(e) THEN PrintT(<<"DRIFT", e.tid, l, "not the reference tensor rule">>)
          ELSE TRUE
Next == /\ l <= Len(Lines)
        /\ Judge(Lines[l])
        /\ l' = l + 1
        /\ (l' > Len(Lines) => PrintT(<<"DONE", Len(Lines)>>))
Spec == Init /\ [][Next]_l
=============================================================================
