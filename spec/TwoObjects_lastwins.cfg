SPECIFICATION Spec
CONSTANTS Rule = "lastwins"
 MaxLen = 5
INVARIANT UseReturnsOwn
CHECK_DEADLOCK FALSE
