------------------------------ MODULE Trace_FV ------------------------------
EXTENDS FV, TLC, Json, IOUtils
VARIABLE l
Lines == TLCGet(7)
Init == TLCSet(7, ndJsonDeserialize(IOEnv.TRACE_FILE)) /\ l = 1
Judge(e) == LET r == FVVerdict(e) IN IF r = "ok" THEN TRUE ELSE PrintT(<<"BAD", e.tid, l, r>>)
Next == /\ l <= Len(Lines)
        /\ Judge(Lines[l])
        /\ l' = l + 1
        /\ (l' > Len(Lines) => PrintT(<<"DONE", Len(Lines)>>))
Spec == Init /\ [][Next]_l
=============================================================================
