SPECIFICATION Spec
INVARIANT ReferenceOk
INVARIANT CornerOk
INVARIANT Emit
CHECK_DEADLOCK FALSE
