-------------------------------- MODULE MC_FV --------------------------------
(* Theorems of the operator definitions over all small grids, integer      *)
(* voxel sizes and all face fluxes / cell fields with entries in a small   *)
(* range: discrete divergence theorem, adjointness, RT0 interpolation      *)
(* properties, constants reproduced by the tangential average.             *)
EXTENDS FV, TLC
CONSTANTS MaxExt, MaxCells, HSet, MaxFacesForFlux
USet == {-1, 0, 1}
VARIABLES shape, h, u, p
vars == <<shape, h, u, p>>

NF == NumFaces(shape)
Init == shape = <<1>> /\ h = <<1>> /\ u = <<>> /\ p = <<0>>
GrowShape == /\ u = [i \in 1..NF |-> 0]
             /\ \/ \E d \in Axes(shape) : /\ shape[d] < MaxExt
                                          /\ NumCells([shape EXCEPT ![d] = @ + 1]) <= MaxCells
                                          /\ shape' = [shape EXCEPT ![d] = @ + 1] /\ h' = h
                \/ /\ Len(shape) < 3 /\ (\A a \in Axes(shape) : shape[a] = 1) /\ h = [a \in Axes(shape) |-> 1]
                   /\ shape' = Append(shape, 1) /\ h' = Append(h, 1)
             /\ u' = [i \in 1..NumFaces(shape') |-> 0]
             /\ p' = [i \in 1..NumCells(shape') |-> i % 3]
ChangeH == /\ u = [i \in 1..NF |-> 0]
           /\ \E d \in Axes(shape) : \E x \in HSet : x > h[d] /\ h' = [h EXCEPT ![d] = x]
           /\ UNCHANGED <<shape, u, p>>
ChangeFlux == /\ NF <= MaxFacesForFlux
              /\ \E i \in 1..NF : \E x \in USet : x # 0 /\ u[i] = 0 /\ (\A j \in 1..i-1 : TRUE)
                                  /\ u' = [u EXCEPT ![i] = x]
              /\ UNCHANGED <<shape, h, p>>
Next == GrowShape \/ ChangeH \/ ChangeFlux
Spec == Init /\ [][Next]_vars

T_DivergenceTheorem(G, Cells, Faces) == Len(u) = NF => SumFun(Cells, [c \in Cells |-> Div(G, h, u, c)]) = 0
T_Adjointness(G, Cells, Faces) == Len(u) = NF /\ Len(p) = NumCells(shape) =>
   SumFun(Cells, [c \in Cells |-> p[c + 1] * Div(G, h, u, c)])
     = - SumFun(Faces, [f \in Faces |-> Area(h, AxisOf(G, f)) * u[f + 1] * (p[Hi(G, f) + 1] - p[Lo(G, f) + 1])])
T_NetOutflowPerCell(G, Cells, Faces) == Len(u) = NF => \A c \in Cells :
   Div(G, h, u, c) = SumFun(1..Len(shape), [d \in 1..Len(shape) |->
        Area(h, d) * (UAt(u, Above(G, d, c)) - UAt(u, Below(G, d, c)))])
Q == 4
T_RT0(G, Cells, Faces) == Len(u) = NF => \A c \in Cells : \A d \in Axes(shape) :
   /\ FaceToCell(G, u, [a \in Axes(shape) |-> 0], Q, c, d) = Q * UAt(u, Below(G, d, c))
   /\ FaceToCell(G, u, [a \in Axes(shape) |-> Q], Q, c, d) = Q * UAt(u, Above(G, d, c))
   /\ 2 * FaceToCell(G, u, [a \in Axes(shape) |-> 2], Q, c, d)
        = Q * (UAt(u, Below(G, d, c)) + UAt(u, Above(G, d, c)))
   /\ \A t \in 0..Q : Q * FaceToCell(G, u, [a \in Axes(shape) |-> t], Q, c, d)
        = (Q - t) * FaceToCell(G, u, [a \in Axes(shape) |-> 0], Q, c, d)
          + t * FaceToCell(G, u, [a \in Axes(shape) |-> Q], Q, c, d)
T_ConstantsReproduced(G, Cells, Faces) == Len(shape) >= 2 =>
   \A k \in {1, 2} : LET uc == [i \in 1..NF |-> k] IN
      \A f \in Faces : \A i \in 1..Len(shape)-1 :
         AllFourExist(G, f, i) => Tangential4(G, uc, f, i) = 4 * k
ASSUME MeansOk == \A a, b \in 1..3 : (120 * a * b) % (a + b) = 0 /\ (a = b => (120 * a * b) \div (a + b) = 60 * a)
DivergenceTheorem == LET g == SpecTables(shape) IN T_DivergenceTheorem(g, CellSet(g), FaceSet(g))
Adjointness == LET g == SpecTables(shape) IN T_Adjointness(g, CellSet(g), FaceSet(g))
NetOutflowPerCell == LET g == SpecTables(shape) IN T_NetOutflowPerCell(g, CellSet(g), FaceSet(g))
RT0 == LET g == SpecTables(shape) IN T_RT0(g, CellSet(g), FaceSet(g))
ConstantsReproduced == LET g == SpecTables(shape) IN T_ConstantsReproduced(g, CellSet(g), FaceSet(g))
Emit == u # [i \in 1..NF |-> 0] \/ h # [d \in Axes(shape) |-> 1] \/ PrintT(<<"SCN", shape>>)
=============================================================================
