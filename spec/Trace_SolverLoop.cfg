SPECIFICATION TraceSpec
CONSTANTS NumIter = 1
 Rule = "fixed"
 MaxRuns = 1
CHECK_DEADLOCK FALSE
