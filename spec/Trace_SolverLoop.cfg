SPECIFICATION TraceSpec
CONSTANTS NumIter = 1
 Rule = "fixed"
CHECK_DEADLOCK FALSE
