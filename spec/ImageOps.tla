------------------------------ MODULE ImageOps ------------------------------
(* Sub-image extraction (C02).  An image derived from a root image by any  *)
(* program of extractions is described completely by                       *)
(*    box  : per spatial axis <<lo, hi>> in root voxels,                   *)
(*    tsel : the root time indices it still contains,                      *)
(*    ser  : whether it is (still) a time series.                          *)
(* Every observable of the child - array shape, every pixel (provenance    *)
(* tags: the root array is np.arange reshaped), origin, dimensions, voxel  *)
(* size, times and dates - is a function of that state (Child).  That IS   *)
(* the property: data block and physical placement are those of the        *)
(* parent, under arbitrary nesting.  Positions use the quarter-voxel       *)
(* lattice of Coords.tla relative to the ROOT origin.                      *)
EXTENDS Coords

RECURSIVE ProdI(_)
ProdI(s) == IF s = <<>> THEN 1 ELSE Head(s) * ProdI(Tail(s))
RECURSIVE CRankI(_, _)
CRankI(s, v) == IF s = <<>> THEN 0 ELSE Head(v) * ProdI(Tail(s)) + CRankI(Tail(s), Tail(v))
RECURSIVE CUnrankI(_, _)
CUnrankI(s, r) == IF s = <<>> THEN <<>>
                  ELSE <<r \div ProdI(Tail(s))>> \o CUnrankI(Tail(s), r % ProdI(Tail(s)))
MinI(a, b) == IF a < b THEN a ELSE b
MaxI(a, b) == IF a > b THEN a ELSE b

\* root description R: [shape, T (0 = no time axis), comps (0 = scalar), timekind]
RootFull(R) == R.shape \o (IF R.T > 0 THEN <<R.T>> ELSE <<>>) \o (IF R.comps > 0 THEN <<R.comps>> ELSE <<>>)
RootTime(R, i) == CASE R.timekind = "times" -> 10 * i + 3
                    [] R.timekind = "dates" -> 10 * i
                    [] OTHER -> -1
RootDate(R, i) == IF R.timekind = "dates" THEN 10 * i ELSE -1
InitState(R) == [box |-> [a \in 1..Len(R.shape) |-> <<0, R.shape[a]>>],
                 tsel |-> [i \in 1..R.T |-> i - 1],
                 ser |-> R.T > 0]

Extent(st, a) == st.box[a][2] - st.box[a][1]
SpaceShape(st) == [a \in 1..Len(st.box) |-> Extent(st, a)]

\* spatial extraction with a ROI relative to the child (corners may lie outside: clipped)
SubEnabled(st, roi) == \A a \in 1..Len(st.box) :
      MaxI(roi[a][1], 0) < MinI(roi[a][2], Extent(st, a))
SubPost(st, roi) == [st EXCEPT !.box = [a \in 1..Len(st.box) |->
      << st.box[a][1] + MaxI(roi[a][1], 0), st.box[a][1] + MinI(roi[a][2], Extent(st, a)) >>]]
TSliceEnabled(st, i) == st.ser /\ i \in 0..Len(st.tsel) - 1
TSlicePost(st, i) == [st EXCEPT !.tsel = <<st.tsel[i + 1]>>, !.ser = FALSE]
TIntEnabled(st, a, b) == st.ser /\ 0 <= a /\ a < MinI(b, Len(st.tsel))
TIntPost(st, a, b) == [st EXCEPT !.tsel = SubSeq(st.tsel, a + 1, MinI(b, Len(st.tsel)))]

\* ---- what the child must look like
ChildFull(R, st) == SpaceShape(st) \o (IF st.ser THEN <<Len(st.tsel)>> ELSE <<>>)
                    \o (IF R.comps > 0 THEN <<R.comps>> ELSE <<>>)
ChildTag(R, st, k) ==
  LET n == Len(st.box)
      idx == CUnrankI(ChildFull(R, st), k)
      v == [a \in 1..n |-> st.box[a][1] + idx[a]]
      t == IF R.T = 0 THEN <<>> ELSE IF st.ser THEN <<st.tsel[idx[n + 1] + 1]>> ELSE <<st.tsel[1]>>
      c == IF R.comps = 0 THEN <<>> ELSE <<idx[Len(idx)]>>
  IN CRankI(RootFull(R), v \o t \o c)
Child(R, st) ==
  [ shape  |-> ChildFull(R, st),
    tags   |-> [k \in 1..ProdI(ChildFull(R, st)) |-> ChildTag(R, st, k - 1)],
    origin |-> CoordOf(Len(st.box), [a \in 1..Len(st.box) |-> 4 * st.box[a][1]]),
    dims   |-> [a \in 1..Len(st.box) |-> 4 * Extent(st, a)],
    vsize  |-> [a \in 1..Len(st.box) |-> 1000000],
    series |-> IF st.ser THEN 1 ELSE 0,
    scalar |-> IF R.comps = 0 THEN 1 ELSE 0,
    time   |-> IF R.T = 0 THEN <<-1>> ELSE [i \in 1..Len(st.tsel) |-> RootTime(R, st.tsel[i])],
    date   |-> IF R.T = 0 THEN <<-1>> ELSE [i \in 1..Len(st.tsel) |-> RootDate(R, st.tsel[i])],
    timelist |-> IF st.ser THEN 1 ELSE 0,
    dtype  |-> R.dtype ]          \* the payload keeps the parent's pixel type

Fields == <<"shape", "tags", "origin", "dims", "vsize", "series", "scalar", "time", "date", "timelist", "dtype">>
ClauseOf(f) == CASE f \in {"shape", "tags"} -> "BlockOfParentData"
                 [] f \in {"origin", "dims", "vsize"} -> "PhysicalPlacement"
                 [] f \in {"time", "date", "timelist"} -> "TimeStamps"
                 [] OTHER -> "PayloadLayout"
Mismatch(R, st, child) == {ClauseOf(Fields[i]) : i \in {j \in 1..Len(Fields) : child[Fields[j]] # Child(R, st)[Fields[j]]}}
=============================================================================
