------------------------------ MODULE LinSolve ------------------------------
(* Formulations and back-ends of the mixed flux-pressure solve (C08).      *)
(*  (a) index bookkeeping of the pressure-only formulation: the fully      *)
(*      reduced matrix is the flux-eliminated one with the row and column  *)
(*      of the pinned cell and of the multiplier removed;                  *)
(*  (b) the dispatch table formulation x back-end;                         *)
(*  (c) the cached-solver state machine of linear_solve (reuse flag).      *)
(* CSC patterns are logged as (indices, indptr); entries are decoded here. *)
EXTENDS Grid

\* ---- (a) sparse patterns
ColOf(indptr, pos) == CHOOSE c \in 0..Len(indptr) - 2 : indptr[c + 1] <= pos /\ pos < indptr[c + 2]
Entries(indices, indptr) == {<<indices[p + 1], ColOf(indptr, p)>> : p \in 0..Len(indices) - 1}
Shift(pin, x) == IF x > pin THEN x - 1 ELSE x

\* expected pattern of the flux-eliminated system on shape s: cells 0..nc-1, multiplier nc.
\* (r, c) present iff r = c has a face, or r, c share a face; multiplier coupled to the pinned cell.
CellAdj(s) == LET C == ConnSeq(s) IN
   UNION {{<<C[i][1], C[i][2]>>, <<C[i][2], C[i][1]>>, <<C[i][1], C[i][1]>>, <<C[i][2], C[i][2]>>} : i \in 1..Len(C)}
ReducedPattern(s, pin) == CellAdj(s) \cup {<<pin, NumCells(s)>>, <<NumCells(s), pin>>}

PatternVerdict(e) ==
  LET nc == NumCells(e.shape)
      R == Entries(e.rind, e.rptr)
      F == Entries(e.find, e.fptr)
      removedPos == {p \in 0..Len(e.rind) - 1 :
                        e.rind[p + 1] \in {e.pin, nc} \/ ColOf(e.rptr, p) \in {e.pin, nc}}
  IN IF e.pin \notin 0..nc - 1 THEN "PinnedCellIsACell"
     ELSE IF ~(R \subseteq (ReducedPattern(e.shape, e.pin) \cup {<<nc, nc>>}) /\ ReducedPattern(e.shape, e.pin) \subseteq R) THEN "FluxEliminatedPattern"
     ELSE IF {p : p \in removedPos} # {e.rm[i] : i \in 1..Len(e.rm)} THEN "RemovedEntriesArePinnedRowCol"
     ELSE IF Len(e.fptr) # Len(e.rptr) - 2 THEN "TwoColumnsRemoved"
     ELSE IF F # {<<Shift(e.pin, x[1]), Shift(e.pin, x[2])>> : x \in {y \in R : y[1] \notin {e.pin, nc} /\ y[2] \notin {e.pin, nc}}} THEN "PressureOnlyPattern"
     ELSE IF e.fidx # [i \in 1..nc - 1 |-> IF i - 1 < e.pin THEN i - 1 ELSE i] THEN "ReducedIndexMap"
     ELSE IF e.fidxfull # [i \in 1..nc - 1 |-> Len(ConnSeq(e.shape)) + (IF i - 1 < e.pin THEN i - 1 ELSE i)] THEN "FullIndexMap"
     ELSE "ok"

\* ---- (b) dispatch: documented combinations must be accepted and reach a solve branch
Formulations == {"full", "flux_reduced", "pressure"}
Backends == {"direct", "amg", "cg"}
Documented(f, b) == f \in Formulations /\ b \in Backends /\ (f = "full" => b = "direct")
DispatchVerdict(e) ==
  IF Documented(e.form, e.backend)
    THEN (IF e.accepted = 1 /\ e.solved = 1 /\ e.errexp <= -6 THEN "ok" ELSE "Dispatch")
  ELSE (IF e.solved = 1 /\ e.errexp > -6 THEN "UndocumentedCombinationWrongResult" ELSE "ok")

\* ---- (c) cached solver: which matrix the solver object was set up for
SolveSetup(reuse, has) == ~reuse \/ ~has
CachePost(st, mat, reuse) == IF SolveSetup(reuse, st.has) THEN [has |-> TRUE, forMat |-> mat] ELSE st
ResultCorrect(st, mat, reuse) == CachePost(st, mat, reuse).forMat = mat
=============================================================================
