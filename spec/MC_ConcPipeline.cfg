SPECIFICATION Spec
INVARIANT BaselineMapsToZero
INVARIANT BaselineMapsToZeroRGB
INVARIANT DiffIdentities
INVARIANT OrderMatters
INVARIANT Emit
CHECK_DEADLOCK FALSE
