---------------------------- MODULE ConcPipeline ----------------------------
(* Concentration analysis as a staged pipeline (C13), per pixel, integers. *)
(* Configuration cfg: which optional stages are present (red, bal, res,    *)
(* mod in {0,1}), order (1 = restoration before model), the difference     *)
(* option, and the extra baselines that define the cleaning threshold.     *)
(* The injected stages are fixed zero-preserving integer maps that do not  *)
(* commute, so a wrong order changes the value:                            *)
(*   reduction  RGB: r + 2 g + 4 b     scalar: 5 x                         *)
(*   balancing  3 x        restoration  floor(x / 2)                       *)
(*   model      x + 1 for x > 0, x - 1 for x < 0, 0 for 0                  *)
EXTENDS Integers, Sequences, FiniteSets, TLC

Abs(x) == IF x < 0 THEN -x ELSE x
Max0(x) == IF x > 0 THEN x ELSE 0
Diff(opt, p, b) == CASE opt = "positive" -> Max0(p - b)
                     [] opt = "negative" -> Max0(b - p)
                     [] opt = "absolute" -> Abs(p - b)
                     [] opt = "plain" -> p - b
Red3(v) == v[1] + 2 * v[2] + 4 * v[3]
Red1(x) == 5 * x
Bal(x) == 3 * x
Res(x) == x \div 2
Mod(x) == IF x > 0 THEN x + 1 ELSE IF x < 0 THEN x - 1 ELSE 0
Opt(flag, F(_), x) == IF flag = 1 THEN F(x) ELSE x

\* signal after difference and reduction; px = sequence of channel values (length 1 or 3)
Reduced(cfg, p, b) ==
  LET d == [c \in 1..Len(p) |-> Diff(cfg.diff, p[c], b[c])]
  IN IF cfg.red = 1 THEN (IF Len(p) = 3 THEN <<Red3(d)>> ELSE <<Red1(d[1])>>) ELSE d
RECURSIVE MaxOver(_, _)
MaxOver(cur, seqs) == IF seqs = <<>> THEN cur
                      ELSE MaxOver([c \in 1..Len(cur) |-> IF Head(seqs)[c] > cur[c] THEN Head(seqs)[c] ELSE cur[c]], Tail(seqs))
\* cleaning threshold from the extra baselines (none: no cleaning at all)
Clean(cfg, sig, b, extras) ==
  IF extras = <<>> THEN sig
  ELSE LET thr == MaxOver([c \in 1..Len(sig) |-> 0], [k \in 1..Len(extras) |-> Reduced(cfg, extras[k], b)])
       IN [c \in 1..Len(sig) |-> Max0(sig[c] - thr[c])]
Tail2(cfg, x) == IF cfg.order = 1 THEN Opt(cfg.mod, Mod, Opt(cfg.res, Res, x))
                 ELSE Opt(cfg.res, Res, Opt(cfg.mod, Mod, x))
Expected(cfg, p, b, extras) ==
  LET s == Clean(cfg, Reduced(cfg, p, b), b, extras)
  IN [c \in 1..Len(s) |-> Tail2(cfg, Opt(cfg.bal, Bal, s[c]))]
\* documented order of the injected stages
StageOrder(cfg) == (IF cfg.red = 1 THEN <<"red">> ELSE <<>>) \o (IF cfg.bal = 1 THEN <<"bal">> ELSE <<>>)
                   \o (IF cfg.order = 1 THEN (IF cfg.res = 1 THEN <<"res">> ELSE <<>>) \o (IF cfg.mod = 1 THEN <<"mod">> ELSE <<>>)
                       ELSE (IF cfg.mod = 1 THEN <<"mod">> ELSE <<>>) \o (IF cfg.res = 1 THEN <<"res">> ELSE <<>>))

\* ---- judging a recorded run: e.px[i] = <<probe px, base px, extras px..., result px>>
RunClauses(e) ==
  << <<"StagesInDocumentedOrder", e.calls = StageOrder(e.cfg)>>,
     <<"ResultIsStagedPipeline", \A i \in 1..Len(e.probe) : e.result[i] = Expected(e.cfg, e.probe[i], e.base[i], e.extras[i])>>,
     <<"ProbeUnmodified", e.probe_unchanged = 1>>,
     <<"ResultCarriesProbeMetadata", e.meta_equal = 1>>,
     <<"ScalarIffOneChannel", e.scalar_result = (IF Len(e.result[1]) = 1 /\ Len(e.probe[1]) = 3 THEN 1 ELSE e.probe_scalar)>> >>
AllFailingC(cl) == {cl[i][1] : i \in {j \in DOMAIN cl : ~cl[j][2]}}
=============================================================================
