SPECIFICATION Spec
CONSTANTS Max1 = 12
 Max2 = 7
 Max3 = 5
INVARIANT ClausesHold
INVARIANT FaceNumBijection
INVARIANT RankUnrank
INVARIANT Emit
CHECK_DEADLOCK FALSE
