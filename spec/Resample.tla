------------------------------ MODULE Resample ------------------------------
(* Resampling and axis reduction (C11) on integer-valued arrays.           *)
(* Arrays are logged flattened in C order together with their shape.       *)
(*  refine by 2 per level : every voxel repeated (value kept, volume / 2^d)*)
(*  coarsen by 2 per level: mean of 2^d blocks (even extents)              *)
(*  area resize by integer factors: block mean (down) / repetition (up);   *)
(*     "conservative" resize multiplies by the ratio of voxel counts, i.e. *)
(*     keeps the plain SUM (extensive data), the plain one keeps the       *)
(*     integral sum * voxel volume (densities)                             *)
(*  reduce_axis: sum / average along a matrix axis                         *)
(*  extrude: 2-D image repeated num times along a new first axis           *)
(*  superpose: images on one voxel grid at integer voxel offsets are added *)
(*     on the common canvas                                                *)
EXTENDS Integers, Sequences, FiniteSets

RECURSIVE ProdR(_)
ProdR(s) == IF s = <<>> THEN 1 ELSE Head(s) * ProdR(Tail(s))
RECURSIVE CRankR(_, _)
CRankR(s, v) == IF s = <<>> THEN 0 ELSE Head(v) * ProdR(Tail(s)) + CRankR(Tail(s), Tail(v))
RECURSIVE CUnrankR(_, _)
CUnrankR(s, r) == IF s = <<>> THEN <<>> ELSE <<r \div ProdR(Tail(s))>> \o CUnrankR(Tail(s), r % ProdR(Tail(s)))
RECURSIVE SumS(_, _)
SumS(S, g) == IF S = {} THEN 0 ELSE LET x == CHOOSE y \in S : TRUE IN g[x] + SumS(S \ {x}, g)
RECURSIVE BoxR(_, _)
BoxR(lo, hi) == IF lo = <<>> THEN {<<>>} ELSE {<<x>> \o t : x \in Head(lo)..(Head(hi) - 1), t \in BoxR(Tail(lo), Tail(hi))}
At(a, s, v) == a[CRankR(s, v) + 1]
SumAll(a) == SumS(1..Len(a), [i \in 1..Len(a) |-> a[i]])

\* block sums: dst shape d, src shape s = k * d (per axis); value = sum over the block
BlockSum(a, s, k) ==
  LET d == [i \in 1..Len(s) |-> s[i] \div k[i]] IN
  [n \in 1..ProdR(d) |-> LET w == CUnrankR(d, n - 1)
                             B == BoxR([i \in 1..Len(s) |-> w[i] * k[i]], [i \in 1..Len(s) |-> (w[i] + 1) * k[i]])
                         IN SumS(B, [v \in B |-> At(a, s, v)])]
Repeat(a, s, k) ==
  LET d == [i \in 1..Len(s) |-> s[i] * k[i]] IN
  [n \in 1..ProdR(d) |-> At(a, s, [i \in 1..Len(s) |-> CUnrankR(d, n - 1)[i] \div k[i]])]
ReduceSum(a, s, ax) ==
  LET d == [i \in 1..Len(s) - 1 |-> IF i < ax THEN s[i] ELSE s[i + 1]] IN
  [n \in 1..ProdR(d) |-> LET w == CUnrankR(d, n - 1) IN
      SumS(0..s[ax] - 1, [q \in 0..s[ax] - 1 |-> At(a, s, SubSeq(w, 1, ax - 1) \o <<q>> \o SubSeq(w, ax, Len(w)))])]
\* canvas of images on one grid: imgs[i] = [shape, off (voxel offset of its first voxel in the canvas), data]
Canvas(cshape, imgs) ==
  [n \in 1..ProdR(cshape) |-> LET w == CUnrankR(cshape, n - 1) IN
      SumS(1..Len(imgs), [i \in 1..Len(imgs) |->
          LET v == [a \in 1..Len(w) |-> w[a] - imgs[i].off[a]]
          IN IF \A a \in 1..Len(w) : 0 <= v[a] /\ v[a] < imgs[i].shape[a] THEN At(imgs[i].data, imgs[i].shape, v) ELSE 0])]

RECURSIVE HalvedUp(_, _)
HalvedUp(n, k) == IF k = 0 THEN n ELSE HalvedUp((n + 1) \div 2, k - 1)

\* ---- verdicts on recorded operations.  res is logged scaled by e.scale (so block means are integers)
Verdict(e) ==
  CASE e.op = "refine" ->    (IF e.rshape # [i \in 1..Len(e.shape) |-> e.shape[i] * e.f] THEN {"ExtentKept"} ELSE {})
                        \cup (IF e.res # Repeat(e.data, e.shape, [i \in 1..Len(e.shape) |-> e.f]) THEN {"RefinementRepeats"} ELSE {})
                        \cup (IF e.dims_kept = 0 THEN {"ExtentKept"} ELSE {})
                        \cup (IF e.back # e.data THEN {"RefineThenCoarsenIsIdentity"} ELSE {})
    [] e.op = "coarsen" ->   (IF e.res # BlockSum(e.data, e.shape, [i \in 1..Len(e.shape) |-> e.f]) THEN {"CoarseningAverages"} ELSE {})
                        \cup (IF e.dims_kept = 0 THEN {"ExtentKept"} ELSE {})
    \* coarsening by e.lev levels of extents that are not multiples of 2^lev: ceil(ceil(n/2)/2..) voxels over the same extent
    [] e.op = "coarsen_odd" -> (IF e.raised = 1 THEN {"CoarseningTotal"}
                                ELSE (IF e.intexp <= -9 THEN {} ELSE {"IntegralConserved"})
                                     \cup (IF e.dims_kept = 0 THEN {"ExtentKept"} ELSE {})
                                     \cup (IF e.rshape # [i \in 1..Len(e.shape) |-> HalvedUp(e.shape[i], e.lev)] THEN {"CoarseShape"} ELSE {})
                                     \cup (IF e.constant = 1 /\ e.const_kept = 0 THEN {"ConstantFieldPreserved"} ELSE {}))
    [] e.op = "area" ->      (IF e.down = 1 /\ e.res # BlockSum(e.data, e.shape, e.k) THEN {"AreaResizeAverages"} ELSE {})
                        \cup (IF e.down = 0 /\ e.res # Repeat(e.data, e.shape, e.k) THEN {"AreaResizeRepeats"} ELSE {})
                        \cup (IF e.dims_kept = 0 THEN {"ExtentKept"} ELSE {})
    [] e.op = "resize_generic" -> (IF e.consexp <= -5 THEN {} ELSE {"ConservedFunctional"}) \cup (IF e.dims_kept = 0 THEN {"ExtentKept"} ELSE {})
    [] e.op = "reduce" ->    (IF e.raised = 1 THEN {"ReductionTotal"}
                              ELSE (IF e.res # ReduceSum(e.data, e.shape, e.ax) THEN {"ReductionIsArraySum"} ELSE {})
                                   \cup (IF e.dims_kept = 0 THEN {"ExtentKept"} ELSE {}))
    [] e.op = "extrude" ->   (IF e.res # Repeat(e.data, <<1>> \o e.shape, <<e.num>> \o [i \in 1..Len(e.shape) |-> 1]) THEN {"ExtrusionRepeats"} ELSE {})
                        \cup (IF e.intratio # 1000000 THEN {"IntegralTimesHeight"} ELSE {})
                        \cup (IF e.dims_kept = 0 THEN {"ExtentKept"} ELSE {})
    [] e.op = "equalize" ->  (IF e.dims_kept = 0 THEN {"ExtentKept"} ELSE {})
                        \cup (IF e.uniform = 0 \/ e.side_is_min = 0 THEN {"VoxelSidesEqualised"} ELSE {})
    [] e.op = "input" ->     (IF e.unchanged = 0 THEN {"InputLeftUnchanged"} ELSE {})
    [] e.op = "superpose" -> (IF e.raised = 1 THEN {"SuperposeTotal"}
                              ELSE (IF e.cshape # e.rshape THEN {"CommonCanvas"}
                                    ELSE IF e.res # Canvas(e.cshape, e.imgs) THEN {"SuperpositionAddsArrays"} ELSE {})
                                   \cup (IF e.dims_kept = 0 THEN {"ExtentKept"} ELSE {}))
=============================================================================
