-------------------------------- MODULE Box --------------------------------
(* Growth beyond the listed properties: bounding boxes of voxel sets        *)
(* (darsia.bounding_box, bounding_box_inverse, perimeter; utils/box.py),    *)
(* which the shape corrections and assistants use to turn clicked voxels    *)
(* into regions of interest.                                                *)
(* A box is a pair of half-open ranges <<lo, hi>> per axis (Python slices). *)
(*   Rule "asbuilt"  : hi = max voxel + padding (clipped to max_size): read *)
(*                     as a slice, the range stops BEFORE the largest voxel *)
(*   Rule "covering" : hi = max voxel + 1 + padding (clipped)               *)
(* Desirable property: every voxel of the set lies inside the box taken as  *)
(* an array region (Covers).  It holds for "covering" only; the driver      *)
(* replays TLC's voxel sets on the real function, which has to follow the   *)
(* rule named as built (conformance clause), and reports the difference as  *)
(* an observation.  Independent of the rule: the box of the corners of a    *)
(* box is that box again (InverseRoundTrip), and the perimeter is twice the *)
(* sum of the extents.                                                      *)
EXTENDS Integers, FiniteSets, Sequences, TLC
CONSTANTS N, Rule, MaxPts
VARIABLES V, pad, clip
vars == <<V, pad, clip>>
Pts == (0..N - 1) \X (0..N - 1)
MinOf(S) == CHOOSE x \in S : \A y \in S : x <= y
MaxOf(S) == CHOOSE x \in S : \A y \in S : y <= x
Lo(S, a, p) == LET m == MinOf({v[a] : v \in S}) - p IN IF m < 0 THEN 0 ELSE m
Hi(rule, S, a, p, c) ==
  LET m == MaxOf({v[a] : v \in S}) + p + (IF rule = "covering" THEN 1 ELSE 0)
  IN IF c /\ m > N THEN N ELSE m
BoxOf(rule, S, p, c) == [a \in 1..2 |-> <<Lo(S, a, p), Hi(rule, S, a, p, c)>>]
Corners(b) == {<<b[1][1], b[2][1]>>, <<b[1][2], b[2][1]>>, <<b[1][2], b[2][2]>>, <<b[1][1], b[2][2]>>}
Perimeter(b) == 2 * (b[1][2] - b[1][1]) + 2 * (b[2][2] - b[2][1])
Init == V \in {S \in SUBSET Pts : Cardinality(S) \in 1..MaxPts} /\ pad \in {0, 1} /\ clip \in BOOLEAN
Next == UNCHANGED vars
Spec == Init /\ [][Next]_vars
Covers == \A v \in V : \A a \in 1..2 : BoxOf(Rule, V, pad, clip)[a][1] <= v[a] /\ v[a] < BoxOf(Rule, V, pad, clip)[a][2]
\* the inverse returns corners whose own (unpadded) box is the box
InverseRoundTrip == LET b == BoxOf("asbuilt", V, pad, clip) IN BoxOf("asbuilt", Corners(b), 0, FALSE) = b
Emit == PrintT(<<"BOX", V, pad, clip, BoxOf("asbuilt", V, pad, clip), Perimeter(BoxOf("asbuilt", V, pad, clip))>>)
=============================================================================
