SPECIFICATION Spec
CONSTANTS Max1 = 12
 Max2 = 7
 Max3 = 5
 MaxLen = 4
INVARIANT ReuseIsSound
INVARIANT PatternTheorem
INVARIANT Emit
INVARIANT EmitHist
CHECK_DEADLOCK FALSE
