------------------------------ MODULE MC_Session ------------------------------
(* Abstract sessions: one image whose (dim, series, tnum) evolves under the *)
(* operation alphabet; TLC enumerates all operation sequences up to MaxLen  *)
(* that are enabled, checks the abstract invariants, and emits them.        *)
EXTENDS Session
CONSTANT MaxLen
VARIABLES a, prog
vars == <<a, prog>>
Start(d, T) == [dim |-> d, series |-> IF T > 0 THEN 1 ELSE 0, tnum |-> IF T > 0 THEN T ELSE 1, scalar |-> 1,
                times |-> [i \in 1..(IF T > 0 THEN T ELSE 1) |-> 10 * i], dates |-> [i \in 1..(IF T > 0 THEN T ELSE 1) |-> 100 + 10 * i], ref |-> 0]
Init == \E d \in {2, 3} : \E T \in {0, 3} : a = Start(d, T) /\ prog = <<[op |-> "start", dim |-> d, T |-> T]>>
Step(op, arg) == a' = Effect(op, a, arg) /\ prog' = Append(prog, [op |-> op, arg |-> arg])
Next == /\ Len(prog) <= MaxLen
        /\ \/ a.series = 1 /\ \E i \in 0..a.tnum - 1 : Step("time_slice", [i |-> i])
           \/ a.series = 1 /\ \E lo \in 0..a.tnum - 1 : \E hi \in lo + 1..a.tnum : Step("time_interval", [lo |-> lo, hi |-> hi])
           \/ \E op \in {"subregion", "copy", "add", "mul", "refine", "weight"} : Step(op, [none |-> 0])
           \/ a.dim = 3 /\ a.series = 0 /\ Step("reduce_axis", [none |-> 0])
           \/ a.dim = 2 /\ a.series = 0 /\ Step("extrude", [none |-> 0])
           \/ Step("reset_reference", [none |-> 0])
           \/ \E sh \in {5, 20} : Step("update_reference_float", [shift |-> sh])
Spec == Init /\ [][Next]_vars
DimInRange == a.dim \in 2..3
TimeListsMatch == Len(a.times) = a.tnum /\ Len(a.dates) = a.tnum /\ (a.series = 0 => a.tnum = 1)
Emit == Len(prog) < 2 \/ PrintT(<<"PROG", prog>>)
=============================================================================
