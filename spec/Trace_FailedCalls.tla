-------------------------- MODULE Trace_FailedCalls --------------------------
(* Replays of FailedCalls' histories on an object of a real class.  An event *)
(* carries the history ("use" / "misuse")*, for every good call whether its  *)
(* result equalled the result of a fresh object ("own") or not ("foreign"),  *)
(* and for every rejected call whether it raised (rejected = 1).             *)
EXTENDS Integers, Sequences, TLC, Json, IOUtils
VARIABLE l
Lines == TLCGet(7)
Init == TLCSet(7, ndJsonDeserialize(IOEnv.TRACE_FILE)) /\ l = 1
Count(h, k) == Len(SelectSeq(h, LAMBDA s : s = k))
Verdict(e) ==
  IF Count(e.hist, "misuse") = 0 \/ Len(e.rejected) # Count(e.hist, "misuse") THEN "HarnessScenario"
  ELSE IF \E i \in 1..Len(e.rejected) : e.rejected[i] = 0 THEN "HarnessScenario"  \* the misuse was accepted: not a failure history
  ELSE IF e.raised = 1 THEN "UseAfterFailureTotal"
  ELSE IF Len(e.results) # Count(e.hist, "use") THEN "HarnessScenario"
  ELSE IF \A i \in 1..Len(e.results) : e.results[i] = "own" THEN "ok"
  ELSE "UseAfterFailureReturnsOwn"
Judge(e) == LET r == Verdict(e) IN IF r = "ok" THEN TRUE ELSE PrintT(<<"BAD", e.tid, l, r>>)
Next == /\ l <= Len(Lines)
        /\ Judge(Lines[l])
        /\ l' = l + 1
        /\ (l' > Len(Lines) => PrintT(<<"DONE", Len(Lines)>>))
Spec == Init /\ [][Next]_l
=============================================================================
