SPECIFICATION Spec
CONSTANTS Rule = "asbuilt"
 MaxLen = 4
 MaxObj = 5
INVARIANT NoStepChangesAnotherObject
CHECK_DEADLOCK FALSE
