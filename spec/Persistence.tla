----------------------------- MODULE Persistence -----------------------------
(* Save / reload equivalence (C18).  A store maps paths to records; Save    *)
(* writes the projection of an object, Load returns it.  The property is    *)
(* that for every metadata configuration Load(Save(x)) has the projection   *)
(* of x (pixels as provenance tags, dtype, metadata), that decoding a       *)
(* lossless byte string returns the encoded array in RGB order with the     *)
(* matching image kind, and that a reloaded correction acts like the saved  *)
(* one.  The configuration space is finite and enumerated by TLC.           *)
EXTENDS Integers, Sequences, FiniteSets, TLC

Dims == 1..3
DTypes == {"bool", "uint8", "uint16", "float32", "float64"}
TimeKinds == {"dates", "times", "both", "none"}     \* "both": absolute dates and independently prescribed relative times
Configs == [dim : Dims, series : {0, 1}, scalar : {0, 1}, dtype : DTypes, timekind : TimeKinds, named : {0, 1}, origin : {"default", "user"}]
ByteFormats == [fmt : {"png", "tiff"}, bits : {8, 16}, layout : {"grey", "single", "colour"}]
KindOf(layout) == IF layout = "colour" THEN "OpticalImage" ELSE "ScalarImage"

\* "colour": colour space of an optical image and whether the object is one ("none" for other images)
Fields == <<"shape", "tags", "dtype", "space_dim", "series", "scalar", "origin", "dims", "time", "date", "name", "indexing", "colour">>
Diff(a, b) == {Fields[i] : i \in {j \in 1..Len(Fields) : a[Fields[j]] # b[Fields[j]]}}
ClauseOfField(f) == CASE f \in {"shape", "tags"} -> "ReloadedPixelsIdentical"
                      [] f = "dtype" -> "ReloadedDtypeIdentical"
                      [] OTHER -> "ReloadedMetadataIdentical"
Verdict(e) ==
  CASE e.op = "npz" -> (IF e.raised = 1 THEN {"SaveLoadTotal"} ELSE {ClauseOfField(f) : f \in Diff(e.before, e.after)})
    [] e.op = "bytes" -> (IF e.raised = 1 THEN {"DecodeTotal"}
                          ELSE (IF e.tags # e.decoded THEN {"DecodedArrayInRGBOrder"} ELSE {})
                               \cup (IF e.kind # KindOf(e.layout) THEN {"DecodedImageKind"} ELSE {})
                               \cup (IF e.dtype # e.ddtype THEN {"ReloadedDtypeIdentical"} ELSE {}))
    [] e.op = "write" -> (IF e.raised = 1 THEN {"WriteReadTotal"} ELSE IF e.tags # e.readback THEN {"WrittenColoursIdentical"} ELSE {})
    [] e.op = "correction" -> (IF e.raised = 1 THEN {"CorrectionReloadTotal"}
                               ELSE (IF e.cls # e.rcls THEN {"ReaderDispatchesOnClass"} ELSE {})
                                    \cup (IF e.same_output = 0 THEN {"ReloadedCorrectionSameOutput"} ELSE {})
                                    \* the reloaded object is equivalent: every plain-data field of its state (numbers, flags,
                                    \* slices, arrays, nested containers, images) equals the saved object's; e.state_diff names the others
                                    \cup (IF e.state_diff # <<>> THEN {"ReloadedCorrectionSameConfiguration"} ELSE {}))
=============================================================================
