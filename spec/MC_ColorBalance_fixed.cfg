SPECIFICATION Spec
CONSTANTS Rule = "fixed"
 MaxLen = 3
INVARIANT AccumulatedIsSequential
INVARIANT Emit
CHECK_DEADLOCK FALSE
