SPECIFICATION Spec
CONSTANTS NumIter = 6
 Rule = "postignored"
INVARIANT ConvergedOnlyIfCriteria
INVARIANT FaultFlagged
INVARIANT DistanceOfReturned
INVARIANT ReturnedIsLastValid
INVARIANT Emit
CHECK_DEADLOCK FALSE
