SPECIFICATION Spec
CONSTANT MaxExt = 4
INVARIANT RepeatMultipliesSum
INVARIANT BlockSumKeepsTotal
INVARIANT RepeatThenBlockSum
INVARIANT ReduceKeepsTotal
INVARIANT SameGridSuperposeAdds
INVARIANT Emit
CHECK_DEADLOCK FALSE
