-------------------------------- MODULE Frame --------------------------------
(* Operations that return new objects do not modify their arguments (C17).  *)
(*                                                                          *)
(* Part 1 - frame rule on recorded calls: every live operand (arguments,    *)
(* bystanders sharing history with them, caller-owned containers) has the   *)
(* same digest after the call as before, unless the call form is a          *)
(* documented mutator of that operand; the global RNG state is unchanged.   *)
(*                                                                          *)
(* Part 2 - implementation-shaped sharing model (FrameImpl, below): images  *)
(* own a pixel buffer and metadata CONTAINERS (the dimensions list ...).    *)
(* Constructing an image from another image's metadata() hands the very     *)
(* same list objects on (shallow copy), and the constructor's height= /     *)
(* width= / depth= keywords write into the list it was given.               *)
(*   Rule "asbuilt" (before the fix): the constructor keeps the caller's    *)
(*                                    list object                           *)
(*   Rule "fixed"                   : the constructor stores a copy         *)
(* TLC explores chains of derive / construct-with-keyword steps and checks  *)
(* that no step changes an object other than the one it creates.            *)
EXTENDS Integers, Sequences, FiniteSets, TLC

\* ---- Part 1
\* (a call form the library is expected to reject part-way - e.rejects = 1, e.g. a distance computation whose AMG options
\* cannot be used - may raise; its arguments and the global random state are as they were after the exception as well)
Judged(e) == e.raised = 0 \/ e.rejects = 1
FrameVerdict(e) ==
  (IF e.raised = 1 /\ e.rejects = 0 THEN {"CallTotal"} ELSE {})
  \cup (IF Judged(e) /\ \E k \in DOMAIN e.pre : k \notin {e.mut[i] : i \in 1..Len(e.mut)} /\ e.post[k] # e.pre[k]
        THEN {"ArgumentsUnmodified"} ELSE {})
  \cup (IF Judged(e) /\ e.rng_same = 0 THEN {"GlobalRandomStateUnchanged"} ELSE {})
  \cup (IF e.raised = 0 /\ e.arith_ok = 0 THEN {"ArithmeticAgreesWithArrays"} ELSE {})
Changed(e) == {k \in DOMAIN e.pre : e.post[k] # e.pre[k]}
=============================================================================
