------------------------------ MODULE Stateless ------------------------------
(* The library as a function (C16): a set of recorded histories is         *)
(* accepted iff ONE function from call keys (operation + all arguments) to *)
(* result digests explains every recorded call - the first call of a fresh *)
(* process, calls late in a long history, reordered independent calls.     *)
(* memo is that function as far as it is known; Call(key, digest) is       *)
(* enabled iff it extends or agrees with it.                               *)
EXTENDS Integers, Sequences, TLC, Json, IOUtils
VARIABLES l, memo
Lines == TLCGet(7)
Init == TLCSet(7, ndJsonDeserialize(IOEnv.TRACE_FILE)) /\ l = 1 /\ memo = <<>>   \* function with empty domain
Known(k) == k \in DOMAIN memo
CallEnabled(k, d) == ~Known(k) \/ memo[k] = d
Step(e) ==
  IF e.raised = 1 THEN memo' = memo /\ PrintT(<<"BAD", e.tid, l, "CallTotal">>)
  ELSE IF CallEnabled(e.key, e.digest)
    THEN memo' = (IF Known(e.key) THEN memo ELSE [k \in DOMAIN memo \cup {e.key} |-> IF k = e.key THEN e.digest ELSE memo[k]])
    ELSE memo' = memo /\ PrintT(<<"BAD", e.tid, l, "ResultDependsOnHistory">>)
Next == /\ l <= Len(Lines)
        /\ Step(Lines[l])
        /\ l' = l + 1
        /\ (l' > Len(Lines) => PrintT(<<"DONE", Len(Lines)>>))
Spec == Init /\ [][Next]_<<l, memo>>
=============================================================================
