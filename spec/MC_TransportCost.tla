--------------------------- MODULE MC_TransportCost ---------------------------
(* All equal-mass integer pairs with entries 0..MaxM on chains of up to     *)
(* MaxN cells: theorems of the exact cost (zero, symmetry, scaling, first-  *)
(* moment bound, midpoint <= corner rule) and scenario emission.            *)
EXTENDS TransportCost, TLC
CONSTANTS MaxN, MaxM
VARIABLES m1, m2
vars == <<m1, m2>>
Init == m1 = <<0>> /\ m2 = <<0>>
Next == \/ Len(m1) < MaxN /\ m1' = Append(m1, 0) /\ m2' = Append(m2, 0)
        \/ \E c \in 1..Len(m1) : m1[c] < MaxM /\ m1' = [m1 EXCEPT ![c] = @ + 1] /\ m2' = m2
        \/ \E c \in 1..Len(m2) : m2[c] < MaxM /\ m2' = [m2 EXCEPT ![c] = @ + 1] /\ m1' = m1
Spec == Init /\ [][Next]_vars
Eq == Total(m1) = Total(m2)
Modes == {"cell", "subcell"}
ZeroSelf == \A md \in Modes : Cost2(md, 2, 3, m1, m1) = 0
Symmetric == Eq => \A md \in Modes : Cost2(md, 2, 3, m1, m2) = Cost2(md, 2, 3, m2, m1)
Scales == Eq => \A md \in Modes : Cost2(md, 2, 3, Scaled(3, m1), Scaled(3, m2)) = 3 * Cost2(md, 2, 3, m1, m2)
MomentBound == Eq => \A md \in Modes : Cost2(md, 2, 3, m1, m2) >= Abs(Moment2(2, 3, m1, m2))
MidpointBelowCorner == Eq => Cost2("cell", 1, 1, m1, m2) <= Cost2("subcell", 1, 1, m1, m2)
Emit == ~Eq \/ Total(m1) = 0 \/ PrintT(<<"SCN", m1, m2>>)
=============================================================================
