----------------------------- MODULE FailedCalls -----------------------------
(* One object, a life cycle of good calls ("use") and rejected calls         *)
(* ("misuse": an invalid input, a fault injected into a collaborator - the   *)
(* call raises).  A rejected call is not part of the object's history: every *)
(* later good call returns what a fresh object of the same configuration     *)
(* returns (UseAfterFailureReturnsOwn) - "for every history" of the listed   *)
(* properties, read along histories that contain failures.                   *)
(*   Rule "atomic"     : a rejected call leaves the object as it was         *)
(*   Rule "halfupdate" : the rejected call stored part of its input (a cache *)
(*                       filled, a parameter assigned, a flag set before the *)
(*                       check that raised); later good calls see it         *)
(*   Rule "stickyflag" : the FIRST rejected call flips a flag that a good    *)
(*                       call resets only once (the second good call after   *)
(*                       the failure is the wrong one)                       *)
(* TLC enumerates the histories; the drivers replay each on the real class.  *)
EXTENDS Integers, Sequences, TLC
CONSTANTS Rule, MaxLen
VARIABLES state, flag, hist, results
vars == <<state, flag, hist, results>>
Init == state = "own" /\ flag = 0 /\ hist = <<>> /\ results = <<>>
Use ==
  /\ Len(hist) < MaxLen
  /\ hist' = Append(hist, "use")
  /\ results' = Append(results, IF flag = 1 THEN "foreign" ELSE state)
  /\ flag' = IF flag = 2 THEN 1 ELSE 0
  /\ UNCHANGED state
Misuse ==
  /\ Len(hist) < MaxLen
  /\ hist' = Append(hist, "misuse")
  /\ state' = IF Rule = "halfupdate" THEN "foreign" ELSE state
  /\ flag' = IF Rule = "stickyflag" THEN 2 ELSE flag
  /\ UNCHANGED results
Next == Use \/ Misuse
Spec == Init /\ [][Next]_vars
UseAfterFailureReturnsOwn == \A i \in 1..Len(results) : results[i] = "own"
\* complete histories only: at least one rejected call, and the last step is a good call
Emit == ~(Len(hist) > 0 /\ hist[Len(hist)] = "use" /\ \E i \in 1..Len(hist) : hist[i] = "misuse") \/ PrintT(<<"HIST", hist>>)
=============================================================================
