--------------------------- MODULE Trace_ImageOps ---------------------------
(* Replays recorded extraction programs: every step must be enabled in the *)
(* specification and the recorded child must be Child(R, post-state).      *)
(* Stack events: slicing a stacked series returns the originals.           *)
EXTENDS ImageOps, TLC, Json, IOUtils
VARIABLES l, R, st, hs      \* hs: the states of the images of the running program (root first), for re-reading them later
Lines == TLCGet(7)
NoRoot == [shape |-> <<1>>, T |-> 0, comps |-> 0, timekind |-> "none", dtype |-> "float64"]
Init == TLCSet(7, ndJsonDeserialize(IOEnv.TRACE_FILE)) /\ l = 1 /\ R = NoRoot /\ st = InitState(NoRoot) /\ hs = <<>>

Enabled(e) == CASE e.op = "sub" -> SubEnabled(st, e.roi)
                [] e.op = "tslice" -> TSliceEnabled(st, e.i)
                [] e.op = "tint" -> TIntEnabled(st, e.a, e.b)
Post(e) == CASE e.op = "sub" -> SubPost(st, e.roi)
             [] e.op = "tslice" -> TSlicePost(st, e.i)
             [] e.op = "tint" -> TIntPost(st, e.a, e.b)

StackVerdict(e) ==    \* e.orig[i], e.back[i]: projections <<time, date, tagsum>> of original i and of slice i of the stack
  {c \in {"StackSliceData", "StackSliceDates", "StackSliceTimes"} :
     \E i \in 1..Len(e.orig) :
        CASE c = "StackSliceData" -> e.back[i].tags # e.orig[i].tags
          [] c = "StackSliceDates" -> e.back[i].date # e.orig[i].date
          \* append(image, offset): the appended image's relative time is shifted by the offset (none for stack)
          [] c = "StackSliceTimes" -> e.back[i].time # (IF i > 1 /\ e.orig[i].time # -1 THEN e.orig[i].time + e.offset ELSE e.orig[i].time)}

Step(e) ==
  IF e.op = "root" THEN
     /\ R' = [shape |-> e.shape, T |-> e.T, comps |-> e.comps, timekind |-> e.timekind, dtype |-> e.dtype]
     /\ st' = InitState([shape |-> e.shape, T |-> e.T, comps |-> e.comps, timekind |-> e.timekind, dtype |-> e.dtype])
     /\ hs' = <<st'>>
     /\ LET m == Mismatch(R', st', e.child) IN IF m = {} THEN TRUE ELSE PrintT(<<"BAD", e.tid, l, m>>)
  ELSE IF e.op = "again" THEN         \* image k of the program read again after the caller worked on (rebound, appended to) its last result
     /\ UNCHANGED <<R, st, hs>>
     /\ (IF e.k < 1 \/ e.k > Len(hs) THEN PrintT(<<"BAD", e.tid, l, "HarnessScenarioNotEnabled">>)
         ELSE LET m == Mismatch(R, hs[e.k], e.child) IN
              IF m = {} THEN TRUE ELSE PrintT(<<"BAD", e.tid, l, {"SourceUnaffectedByWorkOnExtract"}>>))
  ELSE IF e.op = "diffroi" THEN       \* physical box = voxel box of its converted corners (both raise on an empty box, or neither)
     /\ UNCHANGED <<R, st, hs>>
     /\ LET f == (IF e.raised_phys # e.raised_vox THEN {"PhysicalBoxTotalLikeVoxelBox"} ELSE {})
                  \cup (IF e.raised_phys = 0 /\ e.raised_vox = 0 /\ e.same_data = 0 THEN {"PhysicalBoxSelectsVoxelBox"} ELSE {})
                  \cup (IF e.raised_phys = 0 /\ e.raised_vox = 0 /\ e.same_place = 0 THEN {"PhysicalPlacement"} ELSE {})
                  \cup (IF e.raised_phys = 0 /\ e.raised_vox = 0 /\ e.same_meta = 0 THEN {"PayloadLayout"} ELSE {})
        IN IF f = {} THEN TRUE ELSE PrintT(<<"BAD", e.tid, l, f>>)
  ELSE IF e.op = "stack" THEN
     /\ UNCHANGED <<R, st, hs>>
     /\ (IF e.raised = 1 THEN PrintT(<<"BAD", e.tid, l, "StackTotal">>)
         ELSE LET f == StackVerdict(e) IN IF f = {} THEN TRUE ELSE PrintT(<<"BAD", e.tid, l, f>>))
  ELSE IF ~Enabled(e) THEN
     /\ UNCHANGED <<R, st, hs>>
     /\ PrintT(<<"BAD", e.tid, l, "HarnessScenarioNotEnabled">>)
  ELSE
     /\ R' = R
     /\ st' = Post(e)
     /\ hs' = Append(hs, st')
     /\ (IF e.raised = 1 THEN PrintT(<<"BAD", e.tid, l, "ExtractionTotal">>)
         ELSE LET m == Mismatch(R, Post(e), e.child) IN
              IF m = {} THEN TRUE ELSE PrintT(<<"BAD", e.tid, l, m>>))
Next == /\ l <= Len(Lines)
        /\ Step(Lines[l])
        /\ l' = l + 1
        /\ (l' > Len(Lines) => PrintT(<<"DONE", Len(Lines)>>))
Spec == Init /\ [][Next]_<<l, R, st, hs>>
=============================================================================
