----------------------------- MODULE MC_Superpose -----------------------------
(* Superposition of images that sit at integer voxel offsets on one grid:    *)
(* every arrangement of up to MaxImgs intervals (offset, length) along an    *)
(* axis, at least one of them touching the low end of the canvas.  Theorems: *)
(* the canvas is the bounding interval whatever the order of the list (a     *)
(* later image may overhang the earlier ones on both sides), each image lies *)
(* inside it, the canvas sum is the sum of the image sums, and permuting the *)
(* list does not change the canvas.  Each arrangement is printed as a        *)
(* scenario for the driver, which uses it along either image axis.           *)
EXTENDS Resample, TLC
CONSTANTS MaxImgs, MaxOff, MaxLen, Rule   \* Rule: how the implementation-shaped model finds the canvas
VARIABLES ivs
Iv == [off : 0..MaxOff, len : 1..MaxLen]
Init == ivs = <<>>
Next == Len(ivs) < MaxImgs /\ \E iv \in Iv : ivs' = Append(ivs, iv)
Spec == Init /\ [][Next]_ivs
Ext(s) == LET RECURSIVE M(_) M(k) == IF k = 0 THEN 0 ELSE LET r == M(k - 1) t == s[k].off + s[k].len IN IF t > r THEN t ELSE r IN M(Len(s))
Low(s) == \E k \in 1..Len(s) : s[k].off = 0
Img1(iv, tag) == [shape |-> <<iv.len>>, off |-> <<iv.off>>, data |-> [q \in 1..iv.len |-> tag]]
Imgs(s) == [k \in 1..Len(s) |-> Img1(s[k], k)]
\* running bounding interval, the way a single pass over the list has to maintain it: both ends may move in one step
RunBox(s) == LET RECURSIVE B(_) B(k) == IF k = 1 THEN <<s[1].off, s[1].off + s[1].len>>
                                        ELSE LET b == B(k - 1) lo == s[k].off hi == s[k].off + s[k].len
                                             IN <<IF lo < b[1] THEN lo ELSE b[1], IF hi > b[2] THEN hi ELSE b[2]>>
             IN B(Len(s))
\* implementation-shaped: "minmax" = min / max over the stacked corners (arithmetics.superpose as built);
\* "onepass_elif" = a single pass that moves at most one end per image (a plausible rewrite; must be rejected)
ImplBox(s) == IF Rule = "minmax" THEN RunBox(s)
              ELSE LET RECURSIVE B(_) B(k) == IF k = 1 THEN <<s[1].off, s[1].off + s[1].len>>
                                              ELSE LET b == B(k - 1) lo == s[k].off hi == s[k].off + s[k].len
                                                   IN IF lo < b[1] THEN <<lo, b[2]>> ELSE IF hi > b[2] THEN <<b[1], hi>> ELSE b
                   IN B(Len(s))
ImplCanvasIsBounding == Len(ivs) > 0 => ImplBox(ivs) = RunBox(ivs)
BoundingIsOrderFree == Len(ivs) > 0 => RunBox(ivs) = <<(CHOOSE m \in {ivs[k].off : k \in 1..Len(ivs)} : \A k \in 1..Len(ivs) : m <= ivs[k].off), Ext(ivs)>>
InsideCanvas == \A k \in 1..Len(ivs) : ivs[k].off + ivs[k].len <= Ext(ivs)
CanvasSumIsSumOfSums == Len(ivs) > 0 => SumAll(Canvas(<<Ext(ivs)>>, Imgs(ivs))) = SumS(1..Len(ivs), [k \in 1..Len(ivs) |-> k * ivs[k].len])
CanvasPermutationInvariant == Len(ivs) >= 2 =>
    LET sw == [k \in 1..Len(ivs) |-> IF k = 1 THEN Img1(ivs[Len(ivs)], Len(ivs)) ELSE IF k = Len(ivs) THEN Img1(ivs[1], 1) ELSE Img1(ivs[k], k)]
    IN Canvas(<<Ext(ivs)>>, sw) = Canvas(<<Ext(ivs)>>, Imgs(ivs))
\* a later image that overhangs on both sides exists in the explored set (vacuity guard, checked by the driver on the scenarios)
Emit == (Len(ivs) > 0 /\ Low(ivs)) => PrintT(<<"SUP", [k \in 1..Len(ivs) |-> <<ivs[k].off, ivs[k].len>>]>>)
=============================================================================
