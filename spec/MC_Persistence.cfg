SPECIFICATION Spec
INVARIANT RoundTrip
INVARIANT Emit
CHECK_DEADLOCK FALSE
