------------------------------- MODULE Anderson -------------------------------
(* Column bookkeeping of darsia.AndersonAcceleration (beyond the listed     *)
(* properties; used by C16's statelessness check as a white-box model).    *)
(* Per call with iteration counter k:                                      *)
(*   inner = k mod Restart (k if no restart); inner = 0 resets the history;*)
(*   mk = min(inner, Depth) columns 0..mk-1 enter the least-squares mix;   *)
(*   the new difference is written to column (k - 1) mod Depth.            *)
(* `valid` is the set of columns holding a difference recorded since the   *)
(* last reset.  UsedColumnsValid states that the columns entering the mix  *)
(* are valid - as built it fails after a restart whose boundary is not a   *)
(* multiple of Depth (a zero column is used: the step is unaccelerated).   *)
(* Statelessness (C16) only needs: the state after a reset is independent  *)
(* of the history (ResetForgets), which holds.                             *)
EXTENDS Integers, FiniteSets, TLC
CONSTANTS Depth, Restart, MaxK       \* Restart = 0 means "no restart"
VARIABLES k, valid, usedOk, hist
vars == <<k, valid, usedOk, hist>>
Inner(i) == IF Restart = 0 THEN i ELSE i % Restart
Min(a, b) == IF a < b THEN a ELSE b
Init == k = 0 /\ valid = {} /\ usedOk = TRUE /\ hist = <<>>
Call == /\ k <= MaxK
        /\ LET inner == Inner(k)
               base == IF inner = 0 THEN {} ELSE valid
               mk == Min(inner, Depth)
               col == (k - 1) % Depth
               v2 == IF mk > 0 THEN base \cup {col} ELSE base
           IN /\ valid' = v2
              /\ usedOk' = (mk > 0 => (0..mk - 1) \subseteq v2)
        /\ k' = k + 1 /\ hist' = hist
Next == Call
Spec == Init /\ [][Next]_vars
UsedColumnsValid == usedOk
ResetForgets == Inner(k) = 1 /\ k > 0 => valid \subseteq {(k - 1 - 1) % Depth, (k - 1) % Depth}
Emit == PrintT(<<"COLS", k, valid>>)
=============================================================================
