---------------------------- MODULE TransportCost ----------------------------
(* Transport cost on grids where mass conservation leaves no freedom (C05): *)
(* a chain of n cells (1-D, or n x 1 (x 1) in any orientation).  With cell  *)
(* size h along the chain, cross-section area a (volume v = h a) and        *)
(* integer masses m1, m2 of equal total, the unique mass-conserving face    *)
(* flux is u_f = h * P_f,  P_f = sum_{c <= f} (m2_c - m1_c)  (f = 0..n-2),  *)
(* zero on the outer boundary.  Twice the cost, for the three quadratures:  *)
(*   cell projection (midpoint): v h sum_c |P_{c-1} + P_c|                  *)
(*   sub-cell / corner rule    : v h sum_c (|P_{c-1}| + |P_c|)              *)
(*   Raviart-Thomas (Gauss)    : as the midpoint rule, PROVIDED no cell     *)
(*                               sees a sign change of the flux (then the   *)
(*                               integrand is linear and integrated exactly)*)
(* All quantities are integers for integer h, a, m.                         *)
EXTENDS Integers, Sequences, FiniteSets

Abs(x) == IF x < 0 THEN -x ELSE x
RECURSIVE SumTo(_, _)
SumTo(n, f) == IF n = 0 THEN 0 ELSE f[n] + SumTo(n - 1, f)
Total(m) == SumTo(Len(m), m)
\* P[k] for k = 0..n : prefix sums with P[0] = 0 and (equal masses) P[n] = 0; stored at index k+1
Prefix(m1, m2) == [k \in 1..Len(m1) + 1 |-> SumTo(k - 1, [c \in 1..k - 1 |-> m2[c] - m1[c]])]
Cost2(mode, h, a, m1, m2) ==
  LET n == Len(m1)  P == Prefix(m1, m2)  v == h * a IN
  IF mode = "subcell" THEN v * h * SumTo(n, [c \in 1..n |-> Abs(P[c]) + Abs(P[c + 1])])
  ELSE v * h * SumTo(n, [c \in 1..n |-> Abs(P[c] + P[c + 1])])
NoSignChange(m1, m2) == LET P == Prefix(m1, m2) IN \A c \in 1..Len(m1) : P[c] * P[c + 1] >= 0
\* twice the first moment of the mass difference along the chain (cell centres at (c - 1/2) h)
Moment2(h, a, m1, m2) == h * a * h * SumTo(Len(m1), [c \in 1..Len(m1) |-> (2 * c - 1) * (m2[c] - m1[c])])
Scaled(k, m) == [c \in 1..Len(m) |-> k * m[c]]

\* ---- judging recorded distances.  Values d are logged as integers d6 = round(1e6 d).
Tol6(x) == 10 + Abs(x) \div 100000                        \* 1e-5 absolute + 1e-5 relative, in 1e-6 units
Close6(x, y) == Abs(x - y) <= Tol6(x) + Tol6(y)
ThinVerdict(e) ==
  IF e.raised = 1 THEN {"DistanceTotal"}
  \* Gauss rule with a sign change inside a cell: judged against the harness' own quadrature of the unique flux (E4)
  ELSE IF e.mode = "rt" /\ ~NoSignChange(e.m1, e.m2) THEN
       (IF e.gauss6 >= 0 /\ e.d_6 >= 0 /\ ~Close6(e.d_6, e.gauss6) THEN {"UniqueFluxCost"} ELSE {})
  ELSE IF e.d2 = Cost2(e.mode, e.h, e.a, e.m1, e.m2) THEN {} ELSE {"UniqueFluxCost"}   \* e.d2 = 2 d, an integer (near-integer test 1e-5 in the harness)
RelVerdict(e) ==
  (IF e.raised = 1 THEN {"DistanceTotal"} ELSE {})
  \cup (IF e.raised = 0 /\ ~Close6(e.self6, 0) THEN {"ZeroForIdentical"} ELSE {})
  \cup (IF e.raised = 0 /\ ~Close6(e.base6, e.swap6) THEN {"SymmetricUnderSwap"} ELSE {})
  \cup (IF e.raised = 0 /\ e.scale_applicable = 1 /\ ~Close6(e.scaled6 * e.cden, e.base6 * e.cnum) THEN {"ScalesLinearly"} ELSE {})
  \cup (IF e.raised = 0 /\ e.wscale_applicable = 1 /\ ~Close6(e.wscaled6 * e.cden, e.base6 * e.cnum) THEN {"ScalesWithConstantWeight"} ELSE {})
  \cup (IF e.raised = 0 /\ e.base6 + Tol6(e.base6) < e.moment6 THEN {"FirstMomentBound"} ELSE {})
  \cup (IF e.raised = 0 /\ e.min6 >= 0 /\ e.base6 + Tol6(e.base6) + Tol6(e.min6) < e.min6 THEN {"NotBelowDiscreteMinimum"} ELSE {})
  \cup (IF e.raised = 0 /\ ~Close6(e.front6, e.back6) THEN {"FrontEndDispatch"} ELSE {})
  \* ... the status that accompanies the distance included: a back-end object that served another pair before reports, for
  \* this pair, what the front-end (a new object) reports
  \cup (IF e.raised = 0 /\ e.status_same = 0 THEN {"FrontEndDispatch"} ELSE {})
EmdVerdict(e) ==
  (IF e.raised = 1 THEN {"DistanceTotal"} ELSE {})
  \cup (IF e.raised = 0 /\ ~(Abs(e.d6 - e.expected6) <= 20 + e.expected6 \div 10000) THEN {"EmdMassTimesDistance"} ELSE {})
  \cup (IF e.raised = 0 /\ ~(Abs(e.d6 - e.swap6) <= 20 + e.expected6 \div 10000) THEN {"SymmetricUnderSwap"} ELSE {})
  \cup (IF e.raised = 0 /\ ~(Abs(2 * e.d6 - e.scaled6) <= 40 + e.expected6 \div 5000) THEN {"ScalesLinearly"} ELSE {})
\* the pairwise-distance table of a list of images (distance_matrix): symmetric, zero diagonal, entry (i, j) is the distance
\* of images i and j computed directly; d[i][j] in 1e-6 units, direct[i][j] likewise (harness, same solver object)
MatrixVerdict(e) ==
  IF e.raised = 1 THEN {"MatrixTotal"}
  ELSE LET N == 1..Len(e.d) IN
       (IF \E i \in N : e.d[i][i] # 0 THEN {"MatrixZeroDiagonal"} ELSE {})
       \cup (IF \E i, j \in N : ~Close6(e.d[i][j], e.d[j][i]) THEN {"MatrixSymmetric"} ELSE {})
       \cup (IF \E i, j \in N : ~Close6(e.d[i][j], e.direct[i][j]) THEN {"MatrixAgreesWithPairwise"} ELSE {})
Verdict(e) == CASE e.op = "thin" -> ThinVerdict(e) [] e.op = "relations" -> RelVerdict(e) [] e.op = "emd" -> EmdVerdict(e) [] e.op = "matrix" -> MatrixVerdict(e)
=============================================================================
