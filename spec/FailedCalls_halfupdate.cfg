SPECIFICATION Spec
CONSTANTS Rule = "halfupdate"
 MaxLen = 4
INVARIANT UseAfterFailureReturnsOwn

CHECK_DEADLOCK FALSE
