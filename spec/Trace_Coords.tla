---------------------------- MODULE Trace_Coords ----------------------------
(* Validates recorded conversions of darsia's coordinate system and typed  *)
(* point objects against Coords.tla (C01).                                 *)
EXTENDS Coords, TLC, Json, IOUtils
VARIABLE l
Lines == TLCGet(7)
Init == TLCSet(7, ndJsonDeserialize(IOEnv.TRACE_FILE)) /\ l = 1
Judge(e) == LET r == Verdict(e) IN IF r = "ok" THEN TRUE ELSE PrintT(<<"BAD", e.tid, l, r>>)
Next == /\ l <= Len(Lines)
        /\ Judge(Lines[l])
        /\ l' = l + 1
        /\ (l' > Len(Lines) => PrintT(<<"DONE", Len(Lines)>>))
Spec == Init /\ [][Next]_l
=============================================================================
