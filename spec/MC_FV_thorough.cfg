SPECIFICATION Spec
CONSTANTS MaxExt = 4
 MaxCells = 18
 HSet = {1, 2, 3}
 MaxFacesForFlux = 7
INVARIANT DivergenceTheorem
INVARIANT Adjointness
INVARIANT NetOutflowPerCell
INVARIANT RT0
INVARIANT ConstantsReproduced
INVARIANT Emit
CHECK_DEADLOCK FALSE
