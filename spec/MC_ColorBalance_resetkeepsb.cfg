SPECIFICATION Spec
CONSTANTS Rule = "resetkeepsb"
 MaxLen = 3
INVARIANT AccumulatedIsSequential
CHECK_DEADLOCK FALSE
