SPECIFICATION Spec
CONSTANTS Depth = 2
 Restart = 4
 MaxK = 9
INVARIANT UsedColumnsValid
INVARIANT Emit
CHECK_DEADLOCK FALSE
