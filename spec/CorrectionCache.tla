--------------------------- MODULE CorrectionCache ---------------------------
(* Growth beyond the listed properties: per-object caches of the shape       *)
(* corrections.  CurvatureCorrection pre-computes its sampling grid at the   *)
(* first application and stores it in `cache` without a key;                 *)
(* TransformationCorrection does the same with the pulled-back voxels.  The  *)
(* model: one correction object, applied to images of shapes drawn from      *)
(* Shapes.  Rule "unkeyed" (as built): the grid of the FIRST shape serves    *)
(* every later image;  rule "keyed": the grid is recomputed whenever the     *)
(* shape differs from the cached one.  The desirable property - the result   *)
(* has the shape of the image it was computed from, whatever was corrected   *)
(* before - holds for "keyed" only; TLC's counterexample for "unkeyed" is    *)
(* the two-step history <<s1, s2>> with s1 # s2, which the driver replays    *)
(* on the real class.  The conformance clause checked on every replayed      *)
(* history is that the implementation behaves as the rule named AsBuilt.     *)
EXTENDS Integers, Sequences, TLC
CONSTANTS Shapes, Rule, MaxLen
VARIABLES cached,      \* shape the stored grid was computed for; <<>> = nothing cached yet
          hist,        \* shapes of the images corrected so far
          out          \* shapes of the results
ShapeSet == {<<6, 8>>, <<8, 6>>, <<5, 5>>}      \* cfg files cannot hold tuples: Shapes <- ShapeSet
Init == cached = <<>> /\ hist = <<>> /\ out = <<>>
GridFor(c, s) == IF c = <<>> THEN s ELSE IF Rule = "keyed" /\ c # s THEN s ELSE c
Apply(s) == /\ Len(hist) < MaxLen
            /\ cached' = GridFor(cached, s)
            /\ hist' = Append(hist, s)
            /\ out' = Append(out, GridFor(cached, s))      \* the result is sampled on the grid in use
Next == \E s \in Shapes : Apply(s)
Spec == Init /\ [][Next]_<<cached, hist, out>>
ResultHasShapeOfItsInput == \A i \in 1..Len(hist) : out[i] = hist[i]
\* what a given rule returns for a history (used by the driver's conformance clause through PrintT)
Emit == Len(hist) = 0 \/ PrintT(<<"HISTSHAPES", hist, out>>)
=============================================================================
