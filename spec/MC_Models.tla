------------------------------ MODULE MC_Models ------------------------------
(* Coherence of the model algebra on small integers: clipping idempotent,  *)
(* routing "all" equals routing the full ordered dof list, every dof       *)
(* subset consumes exactly as many entries as it names, monomial counts.   *)
EXTENDS Models, TLC
VARIABLES stack, d
Kinds == {<<"scaling", 2>>, <<"linear", 2, 1>>, <<"clip", 0, 5>>}
Init == stack = <<>> /\ d = 0
Next == \/ Len(stack) < 3 /\ \E m \in Kinds : stack' = Append(stack, m) /\ d' = d
        \/ d < 4 /\ d' = d + 1 /\ stack' = stack
Spec == Init /\ [][Next]_<<stack, d>>
AllDofs(ms) == LET RECURSIVE F(_, _)
                   F(k, acc) == IF k > Len(ms) THEN acc
                                ELSE F(k + 1, acc \o [i \in 1..Len(ParamNames(ms[k])) |-> <<k - 1, ParamNames(ms[k])[i]>>])
               IN F(1, <<>>)
P == <<11, 12, 13, 14, 15, 16>>
TotalParams == LET RECURSIVE S(_) S(ms) == IF ms = <<>> THEN 0 ELSE NumParams(Head(ms)) + S(Tail(ms)) IN S(stack)
RouteAllIsFullSubset == stack # <<>> =>
   RouteAll(stack, SubSeq(P, 1, TotalParams)) = RouteSubset(stack, AllDofs(stack), SubSeq(P, 1, TotalParams))
SubsetTouchesOnlyNamed == \A i \in 1..Len(AllDofs(stack)) :
   LET one == <<AllDofs(stack)[i]>>
       after == RouteSubset(stack, one, <<99>>)
   IN \A k \in 1..Len(stack) : k # one[1][1] + 1 => after[k] = stack[k]
ClipIdempotent == \A x \in -2..8 : ClipV(0, 5, ClipV(0, 5, x)) = ClipV(0, 5, x) /\ ClipV(0, 5, x) \in 0..5
MonomialCount == Cardinality(Monomials(d)) = ((d + 1) * (d + 2)) \div 2
Emit == PrintT(<<"SCN", stack, d>>)
=============================================================================
