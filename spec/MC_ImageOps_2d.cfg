SPECIFICATION Spec
CONSTANTS N1 = 3
 N2 = 2
 N3 = 0
 RootT = 3
 MaxLen = 1
INVARIANT BoxInsideRoot
INVARIANT TimesInsideRoot
INVARIANT TagsAreRestriction
INVARIANT Emit
PROPERTY Nesting
CHECK_DEADLOCK FALSE
