SPECIFICATION Spec
INVARIANT RouteAllIsFullSubset
INVARIANT SubsetTouchesOnlyNamed
INVARIANT ClipIdempotent
INVARIANT MonomialCount
INVARIANT Emit
CHECK_DEADLOCK FALSE
