SPECIFICATION Spec
CONSTANTS Shapes <- ShapeSet
 Rule = "unkeyed"
 MaxLen = 3
INVARIANT ResultHasShapeOfItsInput
CHECK_DEADLOCK FALSE
