------------------------------ MODULE FrameImpl ------------------------------
EXTENDS Integers, Sequences, FiniteSets, TLC
CONSTANTS Rule, MaxLen, MaxObj
VARIABLES listOf, content, nextList, hist, changedOther
vars == <<listOf, content, nextList, hist, changedOther>>
\* listOf[o] = id of the dimensions list object of image o; content[l] = version of list l
Objs == DOMAIN listOf
Init == listOf = <<1>> /\ content = <<0>> /\ nextList = 2 /\ hist = <<>> /\ changedOther = FALSE
\* new image built from o.metadata() (arithmetic, subregion-like forms pass metadata on): shares or copies the list
Derive(o) ==
  /\ Len(listOf) < MaxObj /\ Len(hist) < MaxLen
  /\ IF Rule = "asbuilt"
       THEN listOf' = Append(listOf, listOf[o]) /\ content' = content /\ nextList' = nextList
       ELSE listOf' = Append(listOf, nextList) /\ content' = Append(content, content[listOf[o]]) /\ nextList' = nextList + 1
  /\ hist' = Append(hist, <<"derive", o>>) /\ changedOther' = FALSE
\* new image built from o.metadata() plus height=...: writes entry 0 of the list it was given
DeriveWithHeight(o) ==
  /\ Len(listOf) < MaxObj /\ Len(hist) < MaxLen
  /\ IF Rule = "asbuilt"
       THEN /\ listOf' = Append(listOf, listOf[o])
            /\ content' = [content EXCEPT ![listOf[o]] = @ + 1]
            /\ nextList' = nextList
            /\ changedOther' = TRUE                     \* o (and every sharer) sees the write
       ELSE /\ listOf' = Append(listOf, nextList)
            /\ content' = Append(content, content[listOf[o]] + 1)
            /\ nextList' = nextList + 1
            /\ changedOther' = FALSE
  /\ hist' = Append(hist, <<"height", o>>)
Next == \E o \in Objs : Derive(o) \/ DeriveWithHeight(o)
Spec == Init /\ [][Next]_vars
NoStepChangesAnotherObject == ~changedOther
Emit == hist = <<>> \/ PrintT(<<"SCN", hist>>)
=============================================================================
