SPECIFICATION Spec
CONSTANTS MaxN = 14
 MaxK = 6
INVARIANT TilingTheorem
INVARIANT RoiContainsInterior
INVARIANT CornerFinding
INVARIANT Emit
CHECK_DEADLOCK FALSE
