------------------------------ MODULE Coords ------------------------------
(* Voxel <-> coordinate conversion on the quarter-voxel lattice (C01).     *)
(* A position along matrix axis m is an integer p[m] in quarter voxels:    *)
(* voxel corner 4v, voxel centre 4v+2, 4v+1..4v+3 strictly inside voxel v. *)
(* A Cartesian position is its offset from the image origin in quarter     *)
(* voxel sizes of the corresponding matrix axis.  Floats never appear: the *)
(* harness converts with its own voxel sizes (concretisations).            *)
EXTENDS Axes

CoordOf(n, p) == [c \in 1..n |-> Sign(n, MatOf(n, c)) * p[MatOf(n, c)]]
VoxOf(n, K) == [m \in 1..n |-> (Sign(n, m) * K[CartOf(n, m)]) \div 4]      \* floor
QVox(n, K) == [m \in 1..n |-> 4 * VoxOf(n, K)[m]]
Snap(n, p) == [m \in 1..n |-> 4 * (p[m] \div 4)]                            \* voxel containing p
Plus2(n, p) == [m \in 1..n |-> p[m] + 2]

\* typed conversions; points of kind "V" (voxel, 4v), "C" (voxel centre, 4v+2),
\* "X" (coordinate, lattice K)
Convert(n, from, to, p) ==
  CASE from = "V" /\ to = "V" -> p
    [] from = "V" /\ to = "C" -> Plus2(n, p)
    [] from = "V" /\ to = "X" -> CoordOf(n, p)
    [] from = "C" /\ to = "V" -> Snap(n, p)
    [] from = "C" /\ to = "C" -> p
    [] from = "C" /\ to = "X" -> CoordOf(n, p)
    [] from = "X" /\ to = "V" -> QVox(n, p)
    [] from = "X" /\ to = "C" -> Plus2(n, QVox(n, p))
    [] from = "X" /\ to = "X" -> p

\* one recorded call: e.op, e.n, e.shape, e.pts, e.res (sequences of points)
Expected(e, p) ==
  CASE e.op = "coordinate" -> CoordOf(e.n, p)
    [] e.op = "voxel"      -> VoxOf(e.n, p)
    [] e.op = "conv"       -> Convert(e.n, e.from, e.to, p)

CallOk(e) == /\ Len(e.res) = Len(e.pts)
             /\ \A i \in 1..Len(e.pts) : e.res[i] = Expected(e, e.pts[i])
CornersOk(e) == /\ e.origin = [c \in 1..e.n |-> 0]
                /\ e.opposite = CoordOf(e.n, [m \in 1..e.n |-> 4 * e.shape[m]])
                /\ e.vsize = [m \in 1..e.n |-> 1000000]
                /\ e.steps = [m \in 1..e.n |-> <<CartOf(e.n, m) - 1, Sign(e.n, m)>>]

\* the coordinate system's enumeration lists every voxel of the image exactly once, with its coordinate
EnumOk(e) == LET RECURSIVE P(_) P(q) == IF q = <<>> THEN 1 ELSE Head(q) * P(Tail(q)) IN
             e.count = P(e.shape) /\ e.distinct = e.count /\ e.inside = 1 /\ e.coords_match = 1
\* by Cartesian name: voxel size, length of 3 voxels, number of voxels in a length of 5 voxel sizes (harness units: 1e6 = exact)
ByNameOk(e) == e.vsize = [c \in 1..e.n |-> 1000000] /\ e.lengths = [c \in 1..e.n |-> 1000000] /\ e.counts = [c \in 1..e.n |-> 5]
\* the image's domain is the box spanned by origin and opposite corner
DomainOk(e) == LET opp == CoordOf(e.n, [m \in 1..e.n |-> 4 * e.shape[m]]) IN
               \A c \in 1..e.n : e.lo[c] = (IF opp[c] < 0 THEN opp[c] ELSE 0) /\ e.hi[c] = (IF opp[c] < 0 THEN 0 ELSE opp[c])

Verdict(e) == IF e.op = "enum" THEN (IF EnumOk(e) THEN "ok" ELSE "VoxelEnumeration")
              ELSE IF e.op = "byname" THEN (IF ByNameOk(e) THEN "ok" ELSE "VoxelSizeByCartesianName")
              ELSE IF e.op = "domain" THEN (IF DomainOk(e) THEN "ok" ELSE "DomainIsBoundingBox")
              ELSE IF e.op = "corners" THEN (IF CornersOk(e) THEN "ok" ELSE
                    IF e.origin # [c \in 1..e.n |-> 0] THEN "OriginAtVoxelZero"
                    ELSE IF e.vsize # [m \in 1..e.n |-> 1000000] THEN "VoxelSize"
                    ELSE IF e.steps # [m \in 1..e.n |-> <<CartOf(e.n, m) - 1, Sign(e.n, m)>>] THEN "UnitStepOrientation"
                    ELSE "OppositeCorner")
              ELSE IF CallOk(e) THEN "ok" ELSE "Conversion"
=============================================================================
