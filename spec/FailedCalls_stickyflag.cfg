SPECIFICATION Spec
CONSTANTS Rule = "stickyflag"
 MaxLen = 4
INVARIANT UseAfterFailureReturnsOwn

CHECK_DEADLOCK FALSE
