SPECIFICATION Spec
CONSTANTS Shapes <- ShapeSet
 Rule = "unkeyed"
 MaxLen = 3
INVARIANT Emit
CHECK_DEADLOCK FALSE
