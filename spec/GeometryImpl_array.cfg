SPECIFICATION Spec
CONSTANTS Rule = "array"
 MaxLen = 5
INVARIANT HistoryIndependent
INVARIANT Emit
CHECK_DEADLOCK FALSE
