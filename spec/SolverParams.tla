---------------------------- MODULE SolverParams ----------------------------
(* Parameters of an iterative solver object (Jacobi, and MG through its    *)
(* smoother) that lives across calls (C16).  update_params replaces ANY    *)
(* SUBSET of (dim, mass_coeff, diffusion_coeff); the next call has to use  *)
(* the diagonal of the object's CURRENT parameters, whichever entry point  *)
(* and whichever subset brought them there.                                *)
(* A letter <<which, dim, mass, diff>> is "replace the parameter(s) named  *)
(* by which (one of them, or all three), then call"; (dim, mass, diff) is  *)
(* the parameter state the call runs with.  The first letter constructs    *)
(* the object (which = "all").                                             *)
(*   Rule = "fixed"          : the diagonal is recomputed for every call   *)
(*   Rule = "percoefficient" : (a plausible optimisation) the diagonal is  *)
(*                             kept and dropped only when a coefficient is *)
(*                             passed - but it also depends on dim         *)
EXTENDS Integers, Sequences, TLC
CONSTANTS Rule, MaxLen
VARIABLES par, cache, hist, used, want
vars == <<par, cache, hist, used, want>>
Dims == {2, 3}
Masses == {1, 2}
Diffs == {1, 2}              \* in quarters
Fields == {"dim", "mass", "diff"}
Diag(p) == <<p.dim, p.mass, p.diff>>      \* injective in the parameters: keep it symbolic
Init == par = <<>> /\ cache = <<>> /\ hist = <<>> /\ used = <<>> /\ want = <<>>
Step(which, d, m, k) ==
  LET new == [dim |-> d, mass |-> m, diff |-> k] IN
  /\ Len(hist) < MaxLen
  /\ (par = <<>> => which = "all")
  /\ (par # <<>> /\ which # "all" => \A f \in Fields \ {which} : new[f] = par[f])
  /\ cache' = IF Rule = "percoefficient" /\ cache # <<>> /\ which = "dim" THEN cache ELSE Diag(new)
  /\ used' = cache'
  /\ want' = Diag(new)
  /\ par' = new
  /\ hist' = Append(hist, <<which, d, m, k>>)
Next == \E which \in Fields \cup {"all"}, d \in Dims, m \in Masses, k \in Diffs : Step(which, d, m, k)
Spec == Init /\ [][Next]_vars
CallUsesCurrentParameters == used = want
Emit == hist = <<>> \/ PrintT(<<"SCN", hist>>)
=============================================================================
