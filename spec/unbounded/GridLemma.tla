------------------------------ MODULE GridLemma ------------------------------
(* Unbounded counterpart of the numbering clauses of Grid.tla (C07) in 3-D: *)
(* for ALL shapes (a, b, c) with extents in 1..MaxE, the interior-face       *)
(* numbering FaceNum(d, cell) = FaceOffset(d) + Rank(FaceShape(d), cell)      *)
(* (first axis fastest, axes in order) is injective, stays below the face    *)
(* count, lies in the block of its axis (so the axis of a face is            *)
(* recoverable), and the two cells it joins differ by the stride of the      *)
(* face's normal axis and are both valid cells.  Point-wise over integer     *)
(* state variables, decided by Apalache at length 0.                         *)
EXTENDS Integers
CONSTANT
  \* @type: Int;
  MaxE
VARIABLES
  \* @type: Int;
  a,
  \* @type: Int;
  b,
  \* @type: Int;
  c,
  \* @type: Int;
  d1,
  \* @type: Int;
  x1,
  \* @type: Int;
  y1,
  \* @type: Int;
  z1,
  \* @type: Int;
  d2,
  \* @type: Int;
  x2,
  \* @type: Int;
  y2,
  \* @type: Int;
  z2

Ext(d) == IF d = 1 THEN a ELSE IF d = 2 THEN b ELSE c
FS1(d) == IF d = 1 THEN a - 1 ELSE a
FS2(d) == IF d = 2 THEN b - 1 ELSE b
FS3(d) == IF d = 3 THEN c - 1 ELSE c
NumFacesAx(d) == FS1(d) * FS2(d) * FS3(d)
FaceOffset(d) == IF d = 1 THEN 0 ELSE IF d = 2 THEN NumFacesAx(1) ELSE NumFacesAx(1) + NumFacesAx(2)
NumFaces == NumFacesAx(1) + NumFacesAx(2) + NumFacesAx(3)
FaceNum(d, x, y, z) == FaceOffset(d) + x + FS1(d) * (y + FS2(d) * z)
CellNum(x, y, z) == x + a * (y + b * z)
Stride(d) == IF d = 1 THEN 1 ELSE IF d = 2 THEN a ELSE a * b
\* (d, x, y, z) denotes the face between cell (x, y, z) and its upper neighbour along d
IsFace(d, x, y, z) == /\ d \in 1..3 /\ 0 <= x /\ 0 <= y /\ 0 <= z
                      /\ x < FS1(d) /\ y < FS2(d) /\ z < FS3(d)
Init == /\ a \in 1..MaxE /\ b \in 1..MaxE /\ c \in 1..MaxE
        /\ d1 \in 1..3 /\ d2 \in 1..3
        /\ x1 \in Nat /\ y1 \in Nat /\ z1 \in Nat /\ x2 \in Nat /\ y2 \in Nat /\ z2 \in Nat
        /\ IsFace(d1, x1, y1, z1) /\ IsFace(d2, x2, y2, z2)
Next == UNCHANGED <<a, b, c, d1, x1, y1, z1, d2, x2, y2, z2>>
InBlock == FaceOffset(d1) <= FaceNum(d1, x1, y1, z1) /\ FaceNum(d1, x1, y1, z1) < FaceOffset(d1) + NumFacesAx(d1)
           /\ FaceNum(d1, x1, y1, z1) < NumFaces
Injective == FaceNum(d1, x1, y1, z1) = FaceNum(d2, x2, y2, z2) => (d1 = d2 /\ x1 = x2 /\ y1 = y2 /\ z1 = z2)
Upper(d, x, y, z) == CellNum(IF d = 1 THEN x + 1 ELSE x, IF d = 2 THEN y + 1 ELSE y, IF d = 3 THEN z + 1 ELSE z)
JoinsNeighbours == /\ Upper(d1, x1, y1, z1) = CellNum(x1, y1, z1) + Stride(d1)
                   /\ 0 <= CellNum(x1, y1, z1) /\ Upper(d1, x1, y1, z1) < a * b * c
CellsInjective == (x1 < a /\ y1 < b /\ z1 < c /\ x2 < a /\ y2 < b /\ z2 < c /\ CellNum(x1, y1, z1) = CellNum(x2, y2, z2))
                     => (x1 = x2 /\ y1 = y2 /\ z1 = z2)
\* vacuity guards: wrong conventions that Apalache must refute (last axis fastest; offsets in reverse order)
WrongStride == Upper(d1, x1, y1, z1) = CellNum(x1, y1, z1) + (IF d1 = 3 THEN 1 ELSE IF d1 = 2 THEN c ELSE b * c)
WrongInjective == (x1 + FS1(d1) * (y1 + FS2(d1) * z1) = x2 + FS1(d2) * (y2 + FS2(d2) * z2)) => (d1 = d2 /\ x1 = x2 /\ y1 = y2 /\ z1 = z2)
Lemma == InBlock /\ Injective /\ JoinsNeighbours /\ CellsInjective
=============================================================================
