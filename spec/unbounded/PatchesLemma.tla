---------------------------- MODULE PatchesLemma ----------------------------
(* Unbounded counterpart of Patches!Tiles (C19): for ALL natural n >= 1 and *)
(* k >= 1 for which patches can be built ((k-1) * ceil(n/k) < n) the patch  *)
(* interiors [i pv, min((i+1) pv, n)), i < k, cover every voxel v < n       *)
(* exactly once.  Formulated point-wise over integer-valued state variables *)
(* so that Apalache decides it with SMT integer arithmetic at length 0:     *)
(* the initial states are all (n, k, v, j) in the precondition, the         *)
(* invariant is the lemma.  The definitions are those of Patches.tla        *)
(* (CeilDiv, PV, IntLo, IntHi, Buildable), repeated here with types because *)
(* Patches.tla extends the untyped lattice modules.                         *)
EXTENDS Integers
CONSTANT
  \* @type: Int;
  MaxN
VARIABLES
  \* @type: Int;
  n,
  \* @type: Int;
  k,
  \* @type: Int;
  v,
  \* @type: Int;
  j,
  \* @type: Int;
  ov

CeilDiv(a, b) == (a + b - 1) \div b
PV(nn, kk) == CeilDiv(nn, kk)
Buildable(nn, kk) == (kk - 1) * PV(nn, kk) < nn
Min(a, b) == IF a < b THEN a ELSE b
IntLo(nn, kk, i) == i * PV(nn, kk)
IntHi(nn, kk, i) == Min((i + 1) * PV(nn, kk), nn)

Init == /\ n \in Nat /\ k \in Nat /\ v \in Nat /\ j \in Nat
        /\ n >= 1 /\ k >= 1 /\ n <= MaxN /\ Buildable(n, k)
        /\ v < n /\ j < k /\ ov \in Nat
Next == UNCHANGED <<n, k, v, j, ov>>

Owner == v \div PV(n, k)
\* the owner patch exists, contains v, and no other patch does; interiors are non-empty and adjacent
Covered == Owner < k /\ IntLo(n, k, Owner) <= v /\ v < IntHi(n, k, Owner)
Unique == (IntLo(n, k, j) <= v /\ v < IntHi(n, k, j)) => j = Owner
NonEmpty == IntLo(n, k, j) < IntHi(n, k, j)
Adjacent == j >= 1 => IntLo(n, k, j) = IntHi(n, k, j - 1)
Ends == IntLo(n, k, 0) = 0 /\ IntHi(n, k, k - 1) = n
Max(x, y) == IF x > y THEN x ELSE y
RoiLo(nn, kk, i) == Max(i * PV(nn, kk) - ov, 0)
RoiHi(nn, kk, i) == Min((i + 1) * PV(nn, kk) + ov, nn)
\* the region of interest of a patch (interior widened by the overlap, clipped to the image) contains its interior,
\* stays inside the image, and the interior starts at most ov voxels into it
RoiContainsInterior == /\ 0 <= RoiLo(n, k, j) /\ RoiLo(n, k, j) <= IntLo(n, k, j)
                       /\ IntHi(n, k, j) <= RoiHi(n, k, j) /\ RoiHi(n, k, j) <= n
                       /\ IntLo(n, k, j) - RoiLo(n, k, j) <= ov
Lemma == RoiContainsInterior /\ Covered /\ Unique /\ NonEmpty /\ Adjacent /\ Ends
=============================================================================
