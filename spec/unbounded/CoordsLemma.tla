----------------------------- MODULE CoordsLemma -----------------------------
(* Unbounded counterpart of the floor clauses of Coords.tla (C01), one axis  *)
(* of the quarter-voxel lattice: for EVERY integer voxel index v (negative   *)
(* and beyond-the-image ones included), either orientation s = +1 / -1 of    *)
(* the matrix axis against its Cartesian axis, and every interior quarter    *)
(* position q in 1..3, the lattice point p = 4 v + q has Cartesian           *)
(* coordinate K = s p and converts back to VoxOf = (s K) \div 4 = v; the     *)
(* voxel centre 4 v + 2 is a fixed point of coordinate -> voxel -> centre;   *)
(* one voxel step moves the coordinate by exactly s * 4 (one voxel size);    *)
(* and truncation toward zero (the pre-fix behaviour of the typed Voxel      *)
(* objects) is refuted for negative indices (vacuity guard).                 *)
EXTENDS Integers
VARIABLES
  \* @type: Int;
  v,
  \* @type: Int;
  q,
  \* @type: Int;
  s
Init == v \in Int /\ q \in 1..3 /\ s \in {-1, 1}
Next == UNCHANGED <<v, q, s>>
P == 4 * v + q
K(p) == s * p
VoxOf(k) == (s * k) \div 4
RoundTrip == VoxOf(K(P)) = v
CentreFixed == 4 * VoxOf(K(4 * v + 2)) + 2 = 4 * v + 2
StepIsVoxelSize == K(4 * (v + 1)) - K(4 * v) = s * 4
Lemma == RoundTrip /\ CentreFixed /\ StepIsVoxelSize
\* truncation toward zero instead of floor
Trunc(x) == IF x >= 0 THEN x \div 4 ELSE -((-x) \div 4)
TruncRoundTrip == Trunc(s * K(P)) = v
=============================================================================
