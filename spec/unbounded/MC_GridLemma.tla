---------------------------- MODULE MC_GridLemma ----------------------------
EXTENDS Integers
VARIABLES
  \* @type: Int;
  a,
  \* @type: Int;
  b,
  \* @type: Int;
  c,
  \* @type: Int;
  d1,
  \* @type: Int;
  x1,
  \* @type: Int;
  y1,
  \* @type: Int;
  z1,
  \* @type: Int;
  d2,
  \* @type: Int;
  x2,
  \* @type: Int;
  y2,
  \* @type: Int;
  z2
MaxE == 100000
INSTANCE GridLemma
=============================================================================
