--------------------------- MODULE MC_PatchesLemmaU ---------------------------
(* no bound at all on n: MaxN is itself an arbitrary integer state-free constant chosen by the solver *)
EXTENDS Integers
CONSTANT
  \* @type: Int;
  MaxN
VARIABLES
  \* @type: Int;
  n,
  \* @type: Int;
  k,
  \* @type: Int;
  v,
  \* @type: Int;
  j,
  \* @type: Int;
  ov
CInit == MaxN \in Nat
INSTANCE PatchesLemma
\* vacuity guard: without the "can be built" precondition an interior may be empty
InitNoPre == /\ n \in Nat /\ k \in Nat /\ v \in Nat /\ j \in Nat /\ n >= 1 /\ k >= 1 /\ v < n /\ j < k /\ ov \in Nat
=============================================================================
