---------------------------- MODULE MC_Patches ----------------------------
(* One axis (axes are independent): all extents 1..MaxN, patch counts      *)
(* 1..MaxK, overlaps p/q.  Interiors tile the axis whenever patches can be *)
(* built; ROIs contain interiors; physical corners i*n/k coincide with the *)
(* voxel corners i*ceil(n/k) exactly when k divides n (the C19 finding).   *)
EXTENDS Patches, TLC
CONSTANTS MaxN, MaxK
VARIABLES n, k, rel
vars == <<n, k, rel>>
Rels == {<<0, 1>>, <<1, 10>>, <<1, 4>>, <<1, 3>>, <<1, 2>>}
Init == n = 1 /\ k = 1 /\ rel = <<0, 1>>
Next == \/ n < MaxN /\ n' = n + 1 /\ UNCHANGED <<k, rel>>
        \/ k < MaxK /\ k' = k + 1 /\ UNCHANGED <<n, rel>>
        \/ \E r \in Rels : rel = <<0, 1>> /\ rel' = r /\ UNCHANGED <<n, k>>
Spec == Init /\ [][Next]_vars
ov == OV(n, k, rel[1], rel[2])
TilingTheorem == Buildable(n, k) => Tiles(n, k)
RoiContainsInterior == Buildable(n, k) => \A i \in 0..k-1 :
     RoiLo(n, k, ov, i) <= IntLo(n, k, i) /\ IntHi(n, k, i) <= RoiHi(n, k, ov, i)
RelInterior == Buildable(n, k) => \A i \in 0..k-1 :
     RoiLo(n, k, ov, i) + (IF i = 0 THEN 0 ELSE ov) = IntLo(n, k, i) \/ i * PV(n, k) < ov
\* physical corner i * (4n/k) (lattice, needs k | 4n i) vs voxel corner 4 i pv
PhysicalEqualsVoxelCorner == \A i \in 0..k : 4 * n * i = 4 * i * PV(n, k) * k
CornerFinding == Buildable(n, k) => (PhysicalEqualsVoxelCorner <=> (n % k = 0))
Emit == PrintT(<<"SCN", n, k, rel, Buildable(n, k)>>)
=============================================================================
