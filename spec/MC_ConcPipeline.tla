--------------------------- MODULE MC_ConcPipeline ---------------------------
(* All configurations (2^4 stage subsets x 2 orders x 4 difference options *)
(* x 0..3 extra baselines) and all small pixel values: the baseline maps   *)
(* to zero, positive + negative = absolute, positive - negative = plain.   *)
EXTENDS ConcPipeline
VARIABLES cfg, nextra
DiffOpts == {"positive", "negative", "absolute", "plain"}
Cfgs == [red : {0, 1}, bal : {0, 1}, res : {0, 1}, mod : {0, 1}, order : {0, 1}, diff : DiffOpts]
Init == cfg \in Cfgs /\ nextra \in 0..3
Next == UNCHANGED <<cfg, nextra>>
Spec == Init /\ [][Next]_<<cfg, nextra>>
Vals == 0..2
BaselineMapsToZero ==
  \A b \in Vals : \A x \in Vals :
     LET extras == [k \in 1..nextra |-> <<(x + k) % 3>>]
     IN Expected(cfg, <<b>>, <<b>>, extras) = <<0>>
BaselineMapsToZeroRGB ==
  \A b1, b2 \in 0..1 : Expected(cfg, <<b1, b2, 1>>, <<b1, b2, 1>>, <<>>) \in {<<0>>, <<0, 0, 0>>}
DiffIdentities == \A p, b \in 0..3 :
     /\ Diff("positive", p, b) + Diff("negative", p, b) = Diff("absolute", p, b)
     /\ Diff("positive", p, b) - Diff("negative", p, b) = Diff("plain", p, b)
OrderMatters == \E x \in 1..4 : Mod(Res(x)) # Res(Mod(x))        \* the injected maps do not commute
Emit == PrintT(<<"SCN", cfg, nextra>>)
=============================================================================
