------------------------------- MODULE Axes -------------------------------
(* Axis conventions (C20, used by C01, C02, C11, C19).                     *)
(* Matrix axes are numbered 1..n (i, j, k), Cartesian axes 1..n (x, y, z). *)
(* AxisTable is the correspondence the coordinate system is built on:      *)
(*   1-D: i <-> x ;  2-D: i <-> y reversed, j <-> x ;                      *)
(*   3-D: i <-> z reversed, j <-> x, k <-> y reversed  (as built; the      *)
(*   module docstring of indexing.py and two helpers say j<->y, k<->x,     *)
(*   which is C20's finding).                                              *)
EXTENDS Integers, Sequences, FiniteSets

AxisTable(n) == CASE n = 1 -> << <<1, FALSE>> >>
                  [] n = 2 -> << <<2, TRUE>>, <<1, FALSE>> >>
                  [] n = 3 -> << <<3, TRUE>>, <<1, FALSE>>, <<2, TRUE>> >>
CartOf(n, m) == AxisTable(n)[m][1]
Reversed(n, m) == AxisTable(n)[m][2]
MatOf(n, c) == CHOOSE m \in 1..n : CartOf(n, m) = c
Sign(n, m) == IF Reversed(n, m) THEN -1 ELSE 1

TableCoherent(n) == /\ {CartOf(n, m) : m \in 1..n} = 1..n
                    /\ \A m \in 1..n : MatOf(n, CartOf(n, m)) = m
                    /\ \A c \in 1..n : CartOf(n, MatOf(n, c)) = c

-----------------------------------------------------------------------------
(* Clauses of C20 on tables LOGGED from the helpers.  All indices 0-based  *)
(* as in Python; -1 means "raised / no answer".  Record e:                 *)
(*  n, tm[c], tmi[c]  : to_matrix_indexing(name / int)                     *)
(*  tc[m], tci[m]     : to_cartesian_indexing(name / int)                  *)
(*  m2c[m] = <<c, r>> : interpret_indexing("ijk"[m], "xyz"[:n])            *)
(*  c2m[c] = <<m, r>> : interpret_indexing("xyz"[c], "ijk"[:n])            *)
(*  idm[m], idc[c]    : interpret_indexing within one family               *)
(*  steps[m] = <<c, sign>> : unit step of the coordinate system            *)
Idx(q, k) == q[k + 1]

HelpersTotal(e) ==
  /\ \A k \in 0..e.n-1 : Idx(e.m2c, k)[1] \in 0..e.n-1 /\ Idx(e.c2m, k)[1] \in 0..e.n-1
  /\ e.n >= 2 => \A k \in 0..e.n-1 : /\ Idx(e.tm, k) \in 0..e.n-1 /\ Idx(e.tmi, k) \in 0..e.n-1
                                      /\ Idx(e.tc, k) \in 0..e.n-1 /\ Idx(e.tci, k) \in 0..e.n-1
ThereAndBack(e) ==
  e.n >= 2 => \A k \in 0..e.n-1 : /\ Idx(e.tm, k) \in 0..e.n-1 => Idx(e.tc, Idx(e.tm, k)) = k
                                  /\ Idx(e.tc, k) \in 0..e.n-1 => Idx(e.tm, Idx(e.tc, k)) = k
IntEqualsName(e) == e.n >= 2 => e.tmi = e.tm /\ e.tci = e.tc
AgreeWithInterpret(e) ==
  e.n >= 2 => \A k \in 0..e.n-1 : /\ Idx(e.tm, k) # -1 => Idx(e.tm, k) = Idx(e.c2m, k)[1]
                                  /\ Idx(e.tc, k) # -1 => Idx(e.tc, k) = Idx(e.m2c, k)[1]
InterpretInverse(e) ==
  \A m \in 0..e.n-1 : LET c == Idx(e.m2c, m)[1] IN
      c \in 0..e.n-1 => /\ Idx(e.c2m, c)[1] = m
                        /\ Idx(e.c2m, c)[2] = Idx(e.m2c, m)[2]
IdentityRows(e) == \A k \in 0..e.n-1 : Idx(e.idm, k) = <<k, 0>> /\ Idx(e.idc, k) = <<k, 0>>
CoordinateSystemAgrees(e) ==
  \A m \in 0..e.n-1 : Idx(e.steps, m) = << Idx(e.m2c, m)[1], IF Idx(e.m2c, m)[2] = 1 THEN -1 ELSE 1 >>

AxesClauses(e) ==
  << <<"HelpersTotal", HelpersTotal(e)>>,
     <<"ThereAndBack", ThereAndBack(e)>>,
     <<"IntEqualsName", IntEqualsName(e)>>,
     <<"AgreeWithInterpret", AgreeWithInterpret(e)>>,
     <<"InterpretInverse", InterpretInverse(e)>>,
     <<"IdentityRows", IdentityRows(e)>>,
     <<"CoordinateSystemAgrees", CoordinateSystemAgrees(e)>> >>

\* the specification's own table in the logged format
SpecAxes(n) ==
  [ n |-> n,
    tm  |-> [c \in 1..n |-> MatOf(n, c) - 1], tmi |-> [c \in 1..n |-> MatOf(n, c) - 1],
    tc  |-> [m \in 1..n |-> CartOf(n, m) - 1], tci |-> [m \in 1..n |-> CartOf(n, m) - 1],
    m2c |-> [m \in 1..n |-> <<CartOf(n, m) - 1, IF Reversed(n, m) THEN 1 ELSE 0>>],
    c2m |-> [c \in 1..n |-> <<MatOf(n, c) - 1, IF Reversed(n, MatOf(n, c)) THEN 1 ELSE 0>>],
    idm |-> [m \in 1..n |-> <<m - 1, 0>>], idc |-> [c \in 1..n |-> <<c - 1, 0>>],
    steps |-> [m \in 1..n |-> <<CartOf(n, m) - 1, Sign(n, m)>>] ]

-----------------------------------------------------------------------------
(* Layout helpers: an array with matrix layout and C-order tags is moved   *)
(* to Cartesian layout.  Voxel v (0-based, matrix) lands at Cartesian      *)
(* index p with p[c] = v[m] or shape[m]-1-v[m] (reversed), m = MatOf(c).   *)
RECURSIVE CRank(_, _)
CRank(s, v) == IF s = <<>> THEN 0
               ELSE Head(v) * (LET RECURSIVE P(_)
                                   P(q) == IF q = <<>> THEN 1 ELSE Head(q) * P(Tail(q))
                               IN P(Tail(s))) + CRank(Tail(s), Tail(v))
CartShape(n, s) == [c \in 1..n |-> s[MatOf(n, c)]]
MatVoxelAt(n, s, p) == [m \in 1..n |-> IF Reversed(n, m) THEN s[m] - 1 - p[CartOf(n, m)] ELSE p[CartOf(n, m)]]
\* expected tag at 0-based Cartesian index p
CartTag(n, s, p) == CRank(s, MatVoxelAt(n, s, p))

RECURSIVE At(_, _)
At(a, p) == IF p = <<>> THEN a ELSE At(a[Head(p) + 1], Tail(p))
RECURSIVE AllIdx(_)
AllIdx(s) == IF s = <<>> THEN {<<>>}
             ELSE {<<h>> \o t : h \in 0..Head(s)-1, t \in AllIdx(Tail(s))}
LayoutIsBijection(n, s) ==
  /\ {MatVoxelAt(n, s, p) : p \in AllIdx(CartShape(n, s))} = AllIdx(s)
  /\ \A p, q \in AllIdx(CartShape(n, s)) : MatVoxelAt(n, s, p) = MatVoxelAt(n, s, q) => p = q

AllFailing(cl) == {cl[i][1] : i \in {j \in DOMAIN cl : ~cl[j][2]}}
FirstFailing(cl) == IF \A i \in DOMAIN cl : cl[i][2] THEN "ok"
                    ELSE cl[CHOOSE i \in DOMAIN cl : ~cl[i][2] /\ \A j \in 1..i-1 : cl[j][2]][1]
=============================================================================
