SPECIFICATION Spec
CONSTANTS N1 = 4
 N2 = 3
 N3 = 0
 RootT = 3
 MaxLen = 4
INVARIANT BoxInsideRoot
INVARIANT TimesInsideRoot
INVARIANT Emit
CHECK_DEADLOCK FALSE
