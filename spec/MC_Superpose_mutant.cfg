SPECIFICATION Spec
CONSTANT MaxImgs = 3
CONSTANT MaxOff = 2
CONSTANT MaxLen = 3
CONSTANT Rule = "onepass_elif"
INVARIANT BoundingIsOrderFree
INVARIANT InsideCanvas
INVARIANT CanvasSumIsSumOfSums
INVARIANT CanvasPermutationInvariant
INVARIANT ImplCanvasIsBounding
CHECK_DEADLOCK FALSE
