----------------------------- MODULE MC_Coords -----------------------------
(* Coherence of the lattice model over dims 1..3, small shapes, every      *)
(* quarter position of image plus halo; emits the (dim, shape) scenarios.  *)
EXTENDS Coords, TLC
CONSTANTS MaxExt, Halo
VARIABLES n, shape, p
vars == <<n, shape, p>>
Lo == -4 * Halo
Hi(m) == 4 * (shape[m] + Halo)
Init == n = 1 /\ shape = <<1>> /\ p = <<Lo>>
NextProbe == /\ \E m \in 1..n : p[m] < Hi(m) /\ p' = [p EXCEPT ![m] = @ + 1]
             /\ UNCHANGED <<n, shape>>
GrowShape == /\ p = [m \in 1..n |-> Lo]
             /\ \/ \E m \in 1..n : shape[m] < MaxExt /\ shape' = [shape EXCEPT ![m] = @ + 1] /\ n' = n /\ p' = p
                \/ n < 3 /\ shape = [m \in 1..n |-> 1] /\ n' = n + 1 /\ shape' = [m \in 1..n+1 |-> 1]
                   /\ p' = [m \in 1..n+1 |-> Lo]
Next == NextProbe \/ GrowShape
Spec == Init /\ [][Next]_vars

E(m) == [a \in 1..n |-> IF a = m THEN 4 ELSE 0]
Add(a, b) == [i \in 1..n |-> a[i] + b[i]]
Sub(a, b) == [i \in 1..n |-> a[i] - b[i]]
Zero == [i \in 1..n |-> 0]

TableOk == TableCoherent(n)
OriginAtZero == CoordOf(n, Zero) = Zero
UnitStep == \A m \in 1..n : Sub(CoordOf(n, Add(p, E(m))), CoordOf(n, p))
                               = [c \in 1..n |-> IF c = CartOf(n, m) THEN 4 * Sign(n, m) ELSE 0]
InsideGivesVoxel == VoxOf(n, CoordOf(n, p)) = [m \in 1..n |-> p[m] \div 4]
FloorOnNegatives == \A m \in 1..n : 4 * (p[m] \div 4) <= p[m] /\ p[m] < 4 * (p[m] \div 4) + 4
CentreRoundTrip == LET c == Plus2(n, Snap(n, p)) IN
                   /\ Convert(n, "C", "V", c) = Snap(n, p)
                   /\ Convert(n, "X", "V", Convert(n, "C", "X", c)) = Snap(n, p)
                   /\ Convert(n, "X", "C", Convert(n, "V", "X", Snap(n, p))) \in {c, Plus2(n, QVox(n, CoordOf(n, Snap(n, p))))}
OppositeCorner == \A m \in 1..n : CoordOf(n, [a \in 1..n |-> 4 * shape[a]])[CartOf(n, m)] = 4 * Sign(n, m) * shape[m]
Emit == p # [m \in 1..n |-> Lo] \/ PrintT(<<"SCN", shape, [m \in 1..n |-> <<CartOf(n, m), Sign(n, m)>>]>>)
=============================================================================
