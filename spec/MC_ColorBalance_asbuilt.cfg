SPECIFICATION Spec
CONSTANTS Rule = "asbuilt"
 MaxLen = 3
INVARIANT AccumulatedIsSequential
CHECK_DEADLOCK FALSE
